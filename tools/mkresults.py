#!/venv/bin/python
"""Regenerate DESIGN.md section 8 tables (between the RESULTS markers) from known_findings.json,
tools/mutation_results.json and seeded/*/meta.json."""
import json
import os
import re

HERE = os.path.dirname(os.path.dirname(os.path.abspath(__file__)))


def load(path, default):
    try:
        return json.load(open(os.path.join(HERE, path)))
    except Exception:
        return default


def main():
    out = []
    kf = load("known_findings.json", {"findings": []})
    out.append("#### Defects repaired (from known_findings.json)\n")
    out.append("| property | /repo commit | what failed | shrunk replays kept as regressions |")
    out.append("|---|---|---|---|")
    for f in kf["findings"]:
        what = f["line"].split(" ", 3)[3] if f["line"].count(" ") >= 3 else f["line"]
        out.append(f"| {f['property']} | `{f['commit']}` | {what} | {', '.join('`' + r + '`' for r in f.get('replays', []))} |")
    out.append("")

    muts = load("tools/mutations.json", [])
    res = load("tools/mutation_results.json", {})
    out.append("#### Hand-written mutations (tools/mutations.json, quick tier, seed 1)\n")
    out.append("| mutation | property | outcome | first signatures |")
    out.append("|---|---|---|---|")
    caught = total = 0
    for m in muts:
        for p in m["props"]:
            r = res.get(f"{m['id']}/{p}")
            if not r:
                continue
            total += 1
            ok = r["rc"] == 1
            caught += ok
            sigs = re.findall(r"signature: ([^'\]]+)", r["note"])
            secs = r["note"].split(" ")[0]
            out.append(f"| {m['id']} | {p} | {'caught' if ok else 'MISSED rc=' + str(r['rc'])} ({secs}) | {'; '.join('`' + s + '`' for s in sigs[:2])} |")
    out.append(f"\n{caught} of {total} (mutation, property) pairs caught.\n")

    out.append("#### Independently seeded changes (seeded/<name>/, written by sub-agents that saw only the property text)\n")
    out.append("| seed | breaks | what it needs to manifest (from the author's notes) | own check (quick) | other checks that also fire |")
    out.append("|---|---|---|---|---|")
    sd = os.path.join(HERE, "seeded")
    n = c = 0
    for name in sorted(os.listdir(sd)) if os.path.isdir(sd) else []:
        meta = load(f"seeded/{name}/meta.json", None)
        if not meta:
            continue
        n += 1
        prop = meta["property"]
        results = meta.get("results", {})
        own = results.get(f"{prop}/quick") or meta.get("quick_check", {})
        ok = own.get("rc") == 1
        c += ok
        others = sorted({k.split("/")[0] + (" (thorough)" if "/thorough" in k else "") for k, v in results.items()
                         if v.get("rc") == 1 and not k.startswith(prop + "/quick")})
        notes = (meta.get("needs_to_manifest") or "").strip().splitlines()
        brief = " ".join(ln.strip("# ").strip() for ln in notes[:40] if ln.strip())[:260].replace("|", "/")
        sig = "; ".join(own.get("signatures", [])[:2])
        out.append(f"| {name} | {prop} | {brief} | {'caught' if ok else 'quiet'} `{sig}` | {', '.join(others) or '-'} |")
    out.append(f"\n{c} of {n} seeded changes are caught by the quick check of the property they were written against.\n")

    out.append("#### Behaviour-preserving refactorings written by sub-agents (refactors/<name>/): every quick check must stay quiet\n")
    out.append("| refactoring | written against | what it rewrites (author's notes) | repo suite | checks that raised an alarm |")
    out.append("|---|---|---|---|---|")
    rd = os.path.join(HERE, "refactors")
    rn = rq = 0
    for name in sorted(os.listdir(rd)) if os.path.isdir(rd) else []:
        meta = load(f"refactors/{name}/meta.json", None)
        if not meta:
            continue
        rn += 1
        res = meta.get("results", {})
        alarms = sorted(k.split("/")[0] for k, v in res.items() if v.get("rc") != 0)
        rq += not alarms
        try:
            notes = open(os.path.join(rd, name, "notes.md")).read()
        except Exception:
            notes = ""
        brief = " ".join(ln.strip("# ").strip() for ln in notes.splitlines()[:30] if ln.strip())[:240].replace("|", "/")
        suite = meta.get("existing_suite_with_change", {})
        out.append(f"| {name} | {meta['property']} | {brief} | {suite.get('passed')} pass, {len(suite.get('stable_pass_missing', []))} missing | "
                   f"{', '.join(alarms) or 'none (' + str(len(res)) + ' checks quiet)'} |")
    out.append(f"\n{rq} of {rn} refactorings leave all checks quiet.\n")

    text = "\n".join(out)
    p = os.path.join(HERE, "DESIGN.md")
    s = open(p).read()
    a, b = "<!-- RESULTS:BEGIN -->", "<!-- RESULTS:END -->"
    if a in s:
        s = s[:s.index(a) + len(a)] + "\n" + text + "\n" + s[s.index(b):]
        open(p, "w").write(s)
        print("DESIGN.md section 8 tables regenerated")
    else:
        print(text)


if __name__ == "__main__":
    main()
