#!/venv/bin/python
"""Sensitivity harness: apply each hand-written mutation of DESIGN.md section 6 to a scratch copy of the
repository (never /repo itself), run the property's check against it via VERIF_REPO, expect exit 1.

usage: tools/mutants.py [--prop C04] [--id name] [--tier quick] [--keep] [--tests]
"""
import argparse
import json
import os
import shutil
import subprocess
import sys
import tempfile
import time

HERE = os.path.dirname(os.path.dirname(os.path.abspath(__file__)))
REPO = os.environ.get("VERIF_REPO_BASE", "/repo")


def main():
    ap = argparse.ArgumentParser()
    ap.add_argument("--prop")
    ap.add_argument("--id")
    ap.add_argument("--tier", default="quick")
    ap.add_argument("--tests", action="store_true", help="also run the repository test-suite on the mutant")
    ap.add_argument("--seed", default="1")
    ap.add_argument("--file", default="mutations.json", help="mutations.json (expect exit 1) or refactors.json (expect exit 0)")
    args = ap.parse_args()
    expect = 0 if "refactor" in args.file else 1
    with open(os.path.join(HERE, "tools", args.file)) as fh:
        muts = json.load(fh)
    rows = []
    for m in muts:
        if args.prop and args.prop not in m["props"]:
            continue
        if args.id and args.id != m["id"]:
            continue
        tmp = tempfile.mkdtemp(prefix="aiosw-mut-")
        try:
            dst = os.path.join(tmp, "repo")
            shutil.copytree(REPO, dst, ignore=shutil.ignore_patterns(".git", "__pycache__", "docs", ".pytest_cache"))
            ok = True
            for ed in m["edits"]:
                path = os.path.join(dst, ed["file"])
                src = open(path).read()
                if src.count(ed["old"]) != 1:
                    print(f"!! {m['id']}: pattern occurs {src.count(ed['old'])} times in {ed['file']}")
                    ok = False
                    break
                open(path, "w").write(src.replace(ed["old"], ed["new"]))
            if not ok:
                rows.append((m["id"], "PATTERN", "", ""))
                continue
            tests = ""
            if args.tests:
                r = subprocess.run(["/venv/bin/python", "-m", "pytest", "-q", "-p", "no:cacheprovider", "-x", "--timeout=900"],
                                   cwd=dst, capture_output=True, text=True)
                tests = r.stdout.strip().splitlines()[-1] if r.stdout.strip() else "?"
            for prop in ([args.prop] if args.prop else m["props"]):
                env = dict(os.environ, VERIF_REPO=dst, VERIF_SEED=args.seed, VERIF_EVIDENCE_DIR=os.path.join(tmp, "ev"), VERIF_REPLAY_DIR=os.path.join(tmp, "rp"))
                t0 = time.time()
                try:
                    r = subprocess.run([os.path.join(HERE, "check"), prop, "--tier", args.tier], env=env,
                                       capture_output=True, text=True, timeout=900, start_new_session=True)
                except subprocess.TimeoutExpired:
                    rows.append((m["id"], prop, "TIMEOUT", ""))
                    continue
                sigs = [ln.strip() for ln in r.stdout.splitlines() if ln.strip().startswith("signature:")]
                rows.append((m["id"], prop, r.returncode, f"{time.time() - t0:.0f}s {tests} {sigs[:3]}"))
                if r.returncode == 2:
                    print(r.stderr[-1500:])
        finally:
            shutil.rmtree(tmp, ignore_errors=True)
    # remember the outcome (committed: DESIGN.md section 8.2 is generated from it)
    resfile = os.path.join(HERE, "tools", "refactor_results.json" if expect == 0 else "mutation_results.json")
    try:
        results = json.load(open(resfile))
    except Exception:
        results = {}
    for mid, prop, rc, note in rows:
        if prop in ("PATTERN", "") or not str(prop).startswith("C"):
            continue
        results[f"{mid}/{prop}"] = {"rc": rc, "note": note, "tier": args.tier, "seed": args.seed}
    json.dump(results, open(resfile, "w"), indent=1, sort_keys=True)
    bad = 0
    for mid, prop, rc, note in rows:
        if expect == 1:
            flag = "caught" if rc == 1 else "MISSED"
        else:
            flag = "quiet" if rc == 0 else "ALARM"
        if rc != expect:
            bad += 1
        print(f"{flag:7} {prop:4} {mid:40} rc={rc} {note}")
    return 1 if bad else 0


if __name__ == "__main__":
    sys.exit(main())
