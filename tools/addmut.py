#!/venv/bin/python
"""append mutations (JSON list on stdin) to tools/mutations.json, replacing same ids"""
import json, os, sys
HERE = os.path.dirname(os.path.dirname(os.path.abspath(__file__)))
p = os.path.join(HERE, "tools", "mutations.json")
cur = json.load(open(p))
new = json.load(sys.stdin)
ids = {m["id"] for m in new}
cur = [m for m in cur if m["id"] not in ids] + new
json.dump(cur, open(p, "w"), indent=1)
print(len(cur), "mutations")
