#!/bin/bash
# Full validation of the checks themselves (takes a few hours on 16 cores):
#   1. every quick check at 5 seeds on the unchanged tree must be quiet      (tools/sweep.sh)
#   2. every behaviour-preserving refactoring must leave the checks quiet    (tools/refactors.json)
#   3. every hand-written mutation must be caught                            (tools/mutations.json)
#   4. every independently seeded change is run against its own check       (seeded/*/)
cd "$(dirname "$0")/.."
echo "== sweep"; tools/sweep.sh
echo "== refactors"; tools/mutants.py --file refactors.json
echo "== mutants"; tools/mutants.py
echo "== seeds own check"; tools/seeded.py run
