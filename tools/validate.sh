#!/bin/bash
# Full validation of the checks themselves (2-3 hours on 16 cores).  Runs from an rsync snapshot of /verif under /tmp so that
# /verif can be edited meanwhile and /verif/evidence is never touched; results (seeded/*/meta.json, refactors/*/meta.json,
# tools/*_results.json) are left in the snapshot and copied back by hand once they have been looked at.
#   1. every quick check at 5 seeds on the unchanged tree must be quiet                          (tools/sweep.sh)
#   2. every independently written behaviour-preserving refactoring must leave the checks quiet  (refactors/*, checks chosen
#      by the files the patch touches; pass ALL=1 to run all 19 against each)
#   3. every hand-written refactoring must leave the checks quiet                                (tools/refactors.json)
#   4. every hand-written mutation must be caught                                                (tools/mutations.json)
#   5. every independently seeded change is run against the quick check of its own property      (seeded/*)
# Logs: /tmp/validate_*.log; done marker /tmp/validate_done.
set -u
SRC="$(cd "$(dirname "$0")/.." && pwd)"
SNAP=${SNAP:-/tmp/verif-validate}
rm -rf "$SNAP"; rsync -a --exclude .git --exclude replays "$SRC"/ "$SNAP"/
cd "$SNAP" || exit 2
rm -f /tmp/validate_done
echo "== sweep";        SEEDS="${SEEDS:-1 2 3 7 42}" tools/sweep.sh > /tmp/validate_sweep.log 2>&1
PROPS_ARG="--props touched"; [ -n "${ALL:-}" ] && PROPS_ARG=""
echo "== refactors";    ls "$SRC"/refactors | xargs -P 4 -I{} bash -c 'p=$(echo {} | sed -E "s/R-(C[0-9]+)-.*/\1/;s/R-own.*/C02/"); rm -rf refactors/{}; tools/seeded.py refactor $p {} '"$SRC"'/refactors/{} '"$PROPS_ARG" > /tmp/validate_refactors.log 2>&1
echo "== hand refactors"; tools/mutants.py --file refactors.json > /tmp/validate_handrf.log 2>&1
echo "== mutants";      tools/mutants.py > /tmp/validate_mutants.log 2>&1
echo "== seeds";        ls seeded | xargs -P 4 -I{} tools/seeded.py run {} > /tmp/validate_seeds.log 2>&1
echo done > /tmp/validate_done
grep -c "ALL QUIET" /tmp/validate_refactors.log; grep ALARMS /tmp/validate_refactors.log
grep -E "^(caught|quiet)" /tmp/validate_seeds.log | awk '{print $1}' | sort | uniq -c
