#!/venv/bin/python
"""kf_add.py PROP COMMIT TEXT SIG[,SIG..] [replay files...]: append a 'fixed' entry; copies replays into regress/PROP/."""
import json, os, shutil, sys
HERE = os.path.dirname(os.path.dirname(os.path.abspath(__file__)))
prop, commit, text, sigs = sys.argv[1:5]
files = sys.argv[5:]
kf = json.load(open(os.path.join(HERE, "known_findings.json")))
dst = os.path.join(HERE, "regress", prop)
os.makedirs(dst, exist_ok=True)
reps = []
for f in files:
    shutil.copy(f, dst)
    reps.append(os.path.join("regress", prop, os.path.basename(f)))
kf["findings"].append({"property": prop, "status": "fixed", "commit": commit,
                       "line": f"fixed: property={prop} {commit} {text}", "signatures": sigs.split(","), "replays": reps})
json.dump(kf, open(os.path.join(HERE, "known_findings.json"), "w"), indent=1, ensure_ascii=False)
print("ok", len(kf["findings"]))
