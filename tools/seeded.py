#!/venv/bin/python
"""Confirm and evaluate seeded breaking changes.

  tools/seeded.py import <PROP> <name> <dir-with patch.diff demo.py notes.md>   confirm + store under seeded/<name>/
  tools/seeded.py run [<name> ...] [--tier quick] [--all-props]                 run the checks against stored seeds

Every run happens in a scratch git worktree of /repo under /tmp (removed afterwards); /repo itself is never touched.
"""
import argparse
import json
import os
import shutil
import subprocess
import sys
import tempfile
import time

HERE = os.path.dirname(os.path.dirname(os.path.abspath(__file__)))
REPO = "/repo"
PY = "/venv/bin/python"
ALL = [f"C{i:02d}" for i in range(1, 20)]


def sh(cmd, **kw):
    return subprocess.run(cmd, capture_output=True, text=True, **kw)


class Worktree:
    def __init__(self):
        self.dir = tempfile.mkdtemp(prefix="aiosw-seed-")
        os.rmdir(self.dir)

    def __enter__(self):
        r = sh(["git", "-C", REPO, "worktree", "add", "-q", "--detach", self.dir, "HEAD"])
        if r.returncode:
            raise SystemExit(r.stderr)
        return self.dir

    def __exit__(self, *a):
        sh(["git", "-C", REPO, "worktree", "remove", "--force", self.dir])
        shutil.rmtree(self.dir, ignore_errors=True)


def pytest_pass_set(tree):
    import xml.etree.ElementTree as ET
    xml = os.path.join(tree, "_junit.xml")
    env = dict(os.environ, PYTHONPATH=os.path.join(tree, "src"))
    env.pop("AIOSWITCHER_VERIF", None)
    sh([PY, "-m", "pytest", "-q", "-p", "no:cacheprovider", "--timeout=900", "--continue-on-collection-errors",
        f"--junitxml={xml}"], cwd=tree, env=env)
    passed = set()
    for tc in ET.parse(xml).getroot().iter("testcase"):
        if not any(ch.tag in ("failure", "error", "skipped") for ch in tc):
            passed.add(f"{tc.get('classname')}::{tc.get('name')}")
    os.remove(xml)
    return passed


def run_demo(tree, demo):
    env = dict(os.environ, PYTHONPATH=os.path.join(tree, "src"))
    try:
        r = subprocess.run([PY, demo], capture_output=True, text=True, env=env, timeout=120, cwd=tree)
        return r.returncode, (r.stdout + r.stderr)[-600:]
    except subprocess.TimeoutExpired:
        return 124, "timeout"


def run_check(tree, prop, tier, seed="1"):
    with tempfile.TemporaryDirectory(prefix="aiosw-ev-") as td:
        env = dict(os.environ, VERIF_REPO=tree, VERIF_SEED=seed, VERIF_EVIDENCE_DIR=os.path.join(td, "ev"),
                   VERIF_REPLAY_DIR=os.path.join(td, "rp"))
        t0 = time.time()
        try:
            r = subprocess.run([os.path.join(HERE, "check"), prop, "--tier", tier], env=env, capture_output=True, text=True,
                               timeout=3600, start_new_session=True)
            rc, out = r.returncode, r.stdout
            err = r.stderr
        except subprocess.TimeoutExpired:
            rc, out, err = "TIMEOUT", "", ""
        sigs = [ln.strip()[11:] for ln in out.splitlines() if ln.strip().startswith("signature:")]
        return {"rc": rc, "seconds": round(time.time() - t0, 1), "signatures": sigs[:6], "stderr": err[-400:] if rc == 2 else ""}


def cmd_import(args):
    src = args.dir
    name = args.name
    dst = os.path.join(HERE, "seeded", name)
    patch = os.path.join(src, "patch.diff")
    demo = os.path.join(src, "demo.py")
    meta = {"property": args.prop, "name": name, "origin": "independent sub-agent given only the property text and a scratch worktree"}
    base = json.load(open("/root/.vp/BASELINE.json"))["stable_pass"]
    with Worktree() as tree:
        rc0, out0 = run_demo(tree, demo)
        r = sh(["git", "-C", tree, "apply", "--whitespace=nowarn", patch])
        if r.returncode:
            print("patch does not apply:", r.stderr)
            return 1
        rc1, out1 = run_demo(tree, demo)
        passed = pytest_pass_set(tree)
        missing = sorted(set(base) - passed)
        meta["confirmed"] = {
            "demo_on_clean_tree": {"rc": rc0, "tail": out0[-200:]},
            "demo_with_change": {"rc": rc1, "tail": out1[-300:]},
            "existing_suite_with_change": {"passed": len(passed), "stable_pass_missing": missing},
        }
        ok = rc0 == 0 and rc1 != 0 and not missing
        print(f"{name}: demo clean rc={rc0}, demo patched rc={rc1}, suite passed={len(passed)} missing={len(missing)} -> "
              + ("CONFIRMED" if ok else "REJECTED"))
        if not ok:
            print(out0[-300:], "\n---\n", out1[-300:], missing[:5])
            return 1
        res = run_check(tree, args.prop, "quick")
        meta["quick_check"] = res
        print(f"  check {args.prop} quick: rc={res['rc']} {res['seconds']}s {res['signatures'][:3]}")
    os.makedirs(dst, exist_ok=True)
    shutil.copy(patch, os.path.join(dst, "patch.diff"))
    shutil.copy(demo, os.path.join(dst, "demo.py"))
    notes = os.path.join(src, "notes.md")
    if os.path.exists(notes):
        shutil.copy(notes, os.path.join(dst, "notes.md"))
        meta["needs_to_manifest"] = open(notes).read()[:1500]
    meta["ran"] = ["git worktree add (scratch)", f"PYTHONPATH=<tree>/src {PY} demo.py   (clean: rc 0)", "git apply patch.diff",
                   f"PYTHONPATH=<tree>/src {PY} demo.py   (patched: rc != 0)",
                   "pytest -q -p no:cacheprovider (patched): every BASELINE stable_pass test still passes",
                   f"VERIF_REPO=<tree> ./check {args.prop} --tier quick", "git worktree remove --force"]
    json.dump(meta, open(os.path.join(dst, "meta.json"), "w"), indent=1)
    return 0


def cmd_run(args):
    names = args.names or sorted(os.listdir(os.path.join(HERE, "seeded")))
    rows = []
    for name in names:
        d = os.path.join(HERE, "seeded", name)
        if not os.path.exists(os.path.join(d, "meta.json")):
            continue
        meta = json.load(open(os.path.join(d, "meta.json")))
        props = ALL if args.all_props else (args.prop.split(",") if args.prop else [meta["property"]])
        with Worktree() as tree:
            r = sh(["git", "-C", tree, "apply", "--whitespace=nowarn", os.path.join(d, "patch.diff")])
            if r.returncode:
                rows.append((name, "-", "PATCH-FAILS", r.stderr[:100]))
                continue
            for p in props:
                res = run_check(tree, p, args.tier, args.seed)
                rows.append((name, p, res["rc"], f"{res['seconds']}s {res['signatures'][:2]} {res['stderr'][-150:]}"))
                key = f"{p}/{args.tier}" + ("" if str(args.seed) == "1" else f"/seed{args.seed}")
                meta.setdefault("results", {})[key] = res
        json.dump(meta, open(os.path.join(d, "meta.json"), "w"), indent=1)
    bad = 0
    for name, p, rc, note in rows:
        own = True
        flag = "caught" if rc == 1 else ("quiet " if rc == 0 else f"rc={rc}")
        print(f"{flag:7} {name:12} {p:4} {note}")
    return 0


def cmd_refactor(args):
    """Import a behaviour-preserving refactoring and run EVERY quick check against it: all must stay quiet."""
    src, name = args.dir, args.name
    dst = os.path.join(HERE, "refactors", name)
    patch = os.path.join(src, "patch.diff")
    base = json.load(open("/root/.vp/BASELINE.json"))["stable_pass"]
    meta = {"property": args.prop, "name": name,
            "origin": "independent sub-agent asked for a refactoring under which the property still holds"}
    rows = []
    with Worktree() as tree:
        r = sh(["git", "-C", tree, "apply", "--whitespace=nowarn", patch])
        if r.returncode:
            print(name, "patch does not apply:", r.stderr[:200])
            return 1
        passed = pytest_pass_set(tree)
        missing = sorted(set(base) - passed)
        meta["existing_suite_with_change"] = {"passed": len(passed), "stable_pass_missing": missing}
        sc = os.path.join(src, "selfcheck.py")
        if os.path.exists(sc):
            rc, out = run_demo(tree, sc)
            meta["selfcheck_with_change"] = {"rc": rc, "tail": out[-200:]}
        if args.props == "touched":
            # the checks whose property is anchored in (or routed through) a file the patch touches
            rel = {"bridge.py": "C05,C06,C07,C17,C19", "api/__init__.py": "C01,C02,C03,C08,C09,C10,C11,C16,C18,C19",
                   "api/messages.py": "C03,C08,C09,C10,C16", "api/remotes.py": "C01,C03,C15,C16", "api/packets.py": "C01,C02,C03,C09,C16",
                   "device/tools.py": "C01,C02,C03,C04,C05,C08,C09", "device/__init__.py": "C05,C07,C08,C19",
                   "schedule/tools.py": "C02,C10,C11,C12,C13,C14", "schedule/parser.py": "C10,C13,C14", "schedule/__init__.py": "C02,C10,C12,C13"}
            touched = [ln.split(" b/")[-1].strip() for ln in open(patch) if ln.startswith("diff --git")]
            want = set()
            for t in touched:
                for k, v in rel.items():
                    if t.endswith("aioswitcher/" + k):
                        want.update(v.split(","))
            props = sorted(want) or ALL
        else:
            props = args.props.split(",") if args.props else ALL
        for p in props:
            res = run_check(tree, p, "quick")
            meta.setdefault("results", {})[f"{p}/quick"] = res
            rows.append((p, res["rc"], res["signatures"][:2]))
    os.makedirs(dst, exist_ok=True)
    shutil.copy(patch, os.path.join(dst, "patch.diff"))
    for extra in ("notes.md", "selfcheck.py"):
        if os.path.exists(os.path.join(src, extra)):
            shutil.copy(os.path.join(src, extra), os.path.join(dst, extra))
    json.dump(meta, open(os.path.join(dst, "meta.json"), "w"), indent=1)
    alarms = [(p, sg) for p, rc, sg in rows if rc != 0]
    print(f"{name}: suite missing={len(missing)} selfcheck={meta.get('selfcheck_with_change', {}).get('rc')} "
          + ("ALL QUIET" if not alarms else f"ALARMS {alarms}"))
    return 0


def main():
    ap = argparse.ArgumentParser()
    sub = ap.add_subparsers(dest="cmd", required=True)
    a = sub.add_parser("import")
    a.add_argument("prop")
    a.add_argument("name")
    a.add_argument("dir")
    b = sub.add_parser("run")
    b.add_argument("names", nargs="*")
    b.add_argument("--tier", default="quick")
    b.add_argument("--seed", default="1")
    b.add_argument("--all-props", action="store_true")
    b.add_argument("--prop", help="run these checks (comma separated) instead of the seed's own")
    c = sub.add_parser("refactor")
    c.add_argument("prop")
    c.add_argument("name")
    c.add_argument("dir")
    c.add_argument("--props", help="checks to run (default: all 19)")
    args = ap.parse_args()
    if args.cmd == "refactor":
        return cmd_refactor(args)
    return cmd_import(args) if args.cmd == "import" else cmd_run(args)


if __name__ == "__main__":
    sys.exit(main())
