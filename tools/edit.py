#!/venv/bin/python
"""EOL-preserving exact-string replacement: edit.py FILE OLD NEW (python escapes allowed via $'..' in shell)."""
import sys
path, old, new = sys.argv[1:4]
raw = open(path, "rb").read()
crlf = b"\r\n" in raw
text = raw.decode().replace("\r\n", "\n")
assert text.count(old) == 1, f"pattern occurs {text.count(old)} times"
text = text.replace(old, new)
if crlf:
    text = text.replace("\n", "\r\n")
open(path, "wb").write(text.encode())
