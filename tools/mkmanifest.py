#!/venv/bin/python
"""Regenerate MANIFEST.json from the property modules present in vlib/props (single source of truth)."""
import importlib
import json
import os
import subprocess
import sys

HERE = os.path.dirname(os.path.dirname(os.path.abspath(__file__)))
sys.path.insert(0, HERE)
os.environ.setdefault("PYTHONHASHSEED", "0")

from vlib.boot import boot  # noqa

boot()

ALL = [f"C{i:02d}" for i in range(1, 20)]
checks, na = [], []
for pid in ALL:
    path = os.path.join(HERE, "vlib", "props", pid.lower() + ".py")
    if not os.path.exists(path):
        na.append({"property_id": pid, "reason": "check not built yet in this revision (work in progress; the technique applies, see DESIGN.md section 3)"})
        continue
    mod = importlib.import_module(f"vlib.props.{pid.lower()}")
    checks.append({
        "property_id": pid,
        "quick_cmd": f"./check {pid} --tier quick",
        "thorough_cmd": f"./check {pid} --tier thorough",
        "evidence_file": f"evidence/{pid}.json",
        "replay_cmd_template": "./check --replay {path}",
        "engine": "hypothesis-pbt",
        "level_claimed": {"category": mod.LEVEL, "text": mod.LEVEL_TEXT, "design_ref": mod.DESIGN_REF},
        "level_note": "; ".join(mod.ASSUMPTIONS),
        "technique": mod.TECHNIQUE,
    })

fixes = subprocess.run(["git", "-C", os.environ.get("VERIF_REPO", "/repo"), "log", "--format=%h %s", "--grep", "^fix:"],
                       capture_output=True, text=True).stdout.strip().splitlines()
manifest = {
    "version": 1,
    "setup_cmd": "(/venv/bin/python -c 'import hypothesis, time_machine' 2>/dev/null || /venv/bin/pip install --no-index --find-links /opt/veriftools/wheels hypothesis) && ./check --selftest",
    "hooks": {
        "guard": "AIOSWITCHER_VERIF",
        "enable": "no source hooks exist: the checks import /repo/src as it is (the check sets AIOSWITCHER_VERIF=1, nothing in the repository reads it)",
        "baseline_off_cmd": "cd /repo && /venv/bin/python -m pytest -ra -q -p no:cacheprovider --timeout=900 --continue-on-collection-errors",
        "source_commits": [],
        "add_only": True,
    },
    "engines": [{
        "name": "hypothesis-pbt",
        "path": "check",
        "serves_properties": [c["property_id"] for c in checks],
        "kind_free_text": "property-based testing: Hypothesis strategies / rule-based state machines and exhaustive enumeration of finite domains against independent reference models, over a scripted fake device (loopback TCP) and a loopback UDP sender; shrunk failures become plain JSON replays",
    }],
    "checks": checks,
    "not_applicable": na,
    "notes": "Entry point ./check <ID> --tier quick|thorough (VERIF_SEED, VERIF_TIER, VERIF_REPO honoured); exit 0 held / 1 VIOLATION / 2 harness error. "
             "Genuine defects repaired in /repo by unguarded 'fix:' commits: " + ("; ".join(fixes) if fixes else "none yet") + ". See known_findings.json and DESIGN.md.",
}
with open(os.path.join(HERE, "MANIFEST.json"), "w") as fh:
    json.dump(manifest, fh, indent=1)
    fh.write("\n")
import jsonschema  # noqa
jsonschema.validate(manifest, json.load(open("/root/.vp/MANIFEST.schema.json")))
print(f"MANIFEST.json: {len(checks)} checks, {len(na)} not yet claimed; schema ok")
