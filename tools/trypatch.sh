#!/bin/bash
# usage: tools/trypatch.sh <patch.diff> <PROP> [check args...]   - run one check against a scratch worktree with the patch applied
patch=$1; prop=$2; shift 2
wt=$(mktemp -d /tmp/aiosw-try-XXXXXX); rmdir $wt
git -C /repo worktree add -q --detach $wt HEAD || exit 2
git -C $wt apply --whitespace=nowarn $patch || { git -C /repo worktree remove --force $wt; exit 2; }
ev=$(mktemp -d /tmp/aiosw-tryev-XXXXXX)
VERIF_REPO=$wt VERIF_EVIDENCE_DIR=$ev/ev VERIF_REPLAY_DIR=$ev/rp /verif/check $prop "$@" 2>&1 | grep -E "signature|tier=|HARNESS" | head -8
git -C /repo worktree remove --force $wt; rm -rf $ev $wt
