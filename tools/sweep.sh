#!/bin/bash
# run every quick check at several seeds in fresh processes; print anything that is not a clean pass
cd "$(dirname "$0")/.."
export VERIF_EVIDENCE_DIR=$(mktemp -d /tmp/aiosw-sweep-ev-XXXX) VERIF_REPLAY_DIR=$(mktemp -d /tmp/aiosw-sweep-rp-XXXX)
fail=0
for seed in ${SEEDS:-1 2 3 7 42}; do
  for i in $(seq -w 1 19); do
    out=$(VERIF_SEED=$seed ./check C$i --tier ${TIER:-quick} 2>&1); rc=$?
    if [ $rc -ne 0 ] || echo "$out" | grep -q "VIOLATION\|HARNESS"; then echo "seed=$seed C$i rc=$rc"; echo "$out" | tail -8; fail=1; fi
  done
  echo "seed $seed done"
done
rm -rf "$VERIF_EVIDENCE_DIR" "$VERIF_REPLAY_DIR"
exit $fail
