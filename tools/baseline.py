#!/venv/bin/python
"""Run the repository's pinned suite (guard off) and compare with /root/.vp/BASELINE.json stable_pass."""
import json, os, subprocess, sys, tempfile
import xml.etree.ElementTree as ET
repo = sys.argv[1] if len(sys.argv) > 1 else "/repo"
base = json.load(open("/root/.vp/BASELINE.json"))
with tempfile.TemporaryDirectory() as td:
    xml = os.path.join(td, "j.xml")
    env = {k: v for k, v in os.environ.items() if k != "AIOSWITCHER_VERIF"}
    subprocess.run(["/venv/bin/python", "-m", "pytest", "-q", "-p", "no:cacheprovider", "--timeout=900",
                    "--continue-on-collection-errors", f"--junitxml={xml}"], cwd=repo, capture_output=True, env=env)
    passed = set()
    for tc in ET.parse(xml).getroot().iter("testcase"):
        if not any(ch.tag in ("failure", "error", "skipped") for ch in tc):
            passed.add(f"{tc.get('classname')}::{tc.get('name')}")
want = set(base["stable_pass"])
missing = sorted(want - passed)
print(f"passed {len(passed)}; stable_pass {len(want)}; stable tests not passing now: {len(missing)}")
for m in missing:
    print("  MISSING", m)
print("extra passing:", sorted(passed - want))
sys.exit(1 if missing else 0)
