"""Per-process event loop and cooperative loopback address / UDP port-block allocation."""
import asyncio
import atexit
import fcntl
import os
import tempfile

from ..boot import HarnessError, VOFFSET as _VOFFSET

_LOOP = None
_SLOT = None
_SLOT_FH = None
SLOT_DIR = os.path.join(tempfile.gettempdir(), "aiosw-verif-slots")
N_SLOTS = 300
PORTS_PER_SLOT = 60


def loop():
    global _LOOP
    if _LOOP is None or _LOOP.is_closed():
        _LOOP = asyncio.new_event_loop()
        asyncio.set_event_loop(_LOOP)
        _own_clock(_LOOP)
    return _LOOP


def _own_clock(lp):
    """The loop's clock is real monotonic time plus an offset that only virtual_time ever advances; installed when the
    loop is made, so that no timer is ever computed against the un-shifted clock."""
    import time as _time
    real = _time.monotonic
    lp.time = lambda: real() + _VOFFSET[0]
    lp._verif_vclock = True


def new_loop():
    """Close this process's event loop and make a fresh one (a program that calls asyncio.run() twice and keeps its
    objects).  Whatever the harness still had running on the old loop is cancelled first."""
    global _LOOP
    lp = _LOOP
    if lp is not None and not lp.is_closed():
        try:
            pending = [t for t in asyncio.all_tasks(lp) if not t.done()]
            for t in pending:
                t.cancel()
            if pending:
                lp.run_until_complete(asyncio.gather(*pending, return_exceptions=True))
            lp.run_until_complete(lp.shutdown_asyncgens())
        finally:
            lp.close()
    _LOOP = None
    return loop()


async def idle(secs):
    """Nothing happens for `secs` seconds of event-loop time (costs milliseconds, see virtual_time)."""
    with virtual_time():
        await asyncio.sleep(secs)


def run(coro, timeout=None):
    lp = loop()
    if timeout is not None:
        coro = asyncio.wait_for(coro, timeout)
    return lp.run_until_complete(coro)


def slot():
    """A number 0..N_SLOTS-1 held exclusively (flock) by this process until it exits."""
    global _SLOT, _SLOT_FH
    if _SLOT is not None and _SLOT_FH is not None and _SLOT[1] == os.getpid():
        return _SLOT[0]
    os.makedirs(SLOT_DIR, exist_ok=True)
    start = os.getpid() % N_SLOTS
    for k in range(N_SLOTS):
        i = (start + k) % N_SLOTS
        fh = open(os.path.join(SLOT_DIR, f"slot{i}"), "a+")
        try:
            fcntl.flock(fh, fcntl.LOCK_EX | fcntl.LOCK_NB)
        except OSError:
            fh.close()
            continue
        _SLOT, _SLOT_FH = (i, os.getpid()), fh
        atexit.register(fh.close)
        return i
    raise HarnessError("no free loopback slot (too many concurrent checks)")


def loopback_ip(extra=0):
    """A 127/8 address private to this process (extra selects further addresses of the slot)."""
    s = slot()
    return f"127.{77 + extra}.{s // 250}.{s % 250 + 1}"


def udp_ports(n=4):
    """n UDP ports from this process's block (outside the ephemeral range and the Switcher ports)."""
    s = slot()
    base = 11000 + s * PORTS_PER_SLOT
    if base + PORTS_PER_SLOT > 20000:
        base = 21000 + (s - 150) * PORTS_PER_SLOT
    return [base + i for i in range(n)]


class virtual_time:
    """While active, the event loop's clock is the harness's: whenever the loop would block waiting for a timer and no
    socket is ready, the clock jumps to that timer instead (after a 2 ms real grace for the kernel).  A device that
    takes an hour to answer costs milliseconds, and every timeout inside the code under test is reachable.  Client and
    fake device share the loop and loopback delivery is synchronous, so nothing is 'in flight' when the loop blocks."""
    GRACE = 0.002

    def __init__(self):
        self.lp = loop()
        self.jumped = 0.0

    def __enter__(self):
        lp, sel = self.lp, self.lp._selector
        if not getattr(lp, "_verif_vclock", False):
            raise HarnessError("virtual_time needs a loop made by net.loop()")
        self._orig_select = sel.select

        def select(timeout=None):
            if timeout is None or timeout <= self.GRACE:
                return self._orig_select(timeout)
            ev = self._orig_select(self.GRACE)
            if not ev:
                _VOFFSET[0] += timeout - self.GRACE
                self.jumped += timeout - self.GRACE
            return ev

        sel.select = select
        return self

    def __exit__(self, *a):
        self.lp._selector.select = self._orig_select
        return False
