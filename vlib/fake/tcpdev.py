"""Scripted fake Switcher device: a real asyncio TCP server on <private loopback ip>:9957 and :10000.

* Frame boundaries come from a harness-side tap on the client's socket transport write/writelines (the *length* of
  every byte string the client hands to its socket); the bytes themselves always come from the socket.
* Replies come from a script, one entry per received frame: {"data": bytes, "delay": turns} or {"eof": True}.
"""
import asyncio
import time
from collections import deque

from ..boot import HarnessError
from . import net

PORT1, PORT2 = 9957, 10000
_TAP = {}
_TAP_INSTALLED = False
EOF = {"eof": True}


def install_tap():
    """Record the length of every byte string handed to a client-side TCP transport.

    The tap sits on the selector socket transport (write and writelines), i.e. below StreamWriter, so it sees the
    byte strings whichever stream API the client uses.
    """
    global _TAP_INSTALLED
    if _TAP_INSTALLED:
        return
    from asyncio import selector_events

    cls = selector_events._SelectorSocketTransport
    orig_write = cls.write
    orig_writelines = getattr(cls, "writelines", None)

    def note(transport, n):
        try:
            sn = transport.get_extra_info("sockname")
        except Exception:
            sn = None
        if n and sn is not None and sn[1] not in (PORT1, PORT2):     # an empty write puts nothing on the wire
            _TAP.setdefault(tuple(sn[:2]), deque()).append(n)

    def write(self, data):
        if not getattr(self, "_verif_in_writelines", False):
            note(self, len(data))
        return orig_write(self, data)

    cls.write = write
    if orig_writelines is not None:
        def writelines(self, list_of_data):
            chunks = [bytes(d) for d in list_of_data]
            note(self, sum(len(c) for c in chunks))
            self._verif_in_writelines = True
            try:
                return orig_writelines(self, chunks)
            finally:
                self._verif_in_writelines = False

        cls.writelines = writelines
    _TAP_INSTALLED = True


EMPTY_READS = {}      # client-side (ip, port) -> {"k": index of the read() that yields b"", "count": reads so far}


def install_empty_read_injector():
    """One read() of a chosen client connection yields b"" although the stream goes on (the unit tests' notion of an
    "empty reply").  Done on asyncio.StreamReader itself, keyed by the connection's local address, so nothing private of
    the library is touched; a client that does not read through StreamReader.read simply never triggers it."""
    if getattr(asyncio.StreamReader, "_verif_patched", False):
        return
    orig = asyncio.StreamReader.read

    async def read(self, n=-1):
        data = await orig(self, n)
        if EMPTY_READS:
            try:
                key = tuple(self._transport.get_extra_info("sockname")[:2])
            except Exception:
                key = None
            ent = EMPTY_READS.get(key)
            if ent is not None:
                i = ent["count"]
                ent["count"] += 1
                if i == ent["k"]:
                    ent["hit"] = True
                    return b""
        return data
    asyncio.StreamReader.read = read
    asyncio.StreamReader._verif_patched = True


class Conn:
    def __init__(self, port, peer):
        self.port = port
        self.peer = peer
        self.frames = []        # bytes, in order
        self.flags = []         # per frame: "" or "untapped"
        self.client_eof = False
        self.sent = []          # replies sent (bytes or "EOF")
        self.half_closed = False
        self.script = deque()   # per-connection replies (take precedence over the device-wide script)
        self.responder = None   # callable(frame) -> reply entry; takes precedence over both scripts
        self.times = []         # clock reading (time.time(), possibly virtual) when each frame was cut


class FakeDevice:
    def __init__(self, ip=None):
        self.ip = ip or net.loopback_ip()
        self.servers = {}
        self.conns = []
        self.open = 0
        self.script = deque()
        self.unscripted = 0
        self.default_reply = b"\xfe\xf0" + bytes(range(1, 47))
        self.on_frame = None
        self._writers = set()

    # -- life cycle -----------------------------------------------------------------------
    async def start(self, ports=(PORT1, PORT2)):
        install_tap()
        for p in ports:
            await self.listen(p)

    async def listen(self, port):
        if port in self.servers:
            return
        try:
            srv = await asyncio.start_server(lambda r, w, port=port: self._handle(port, r, w), self.ip, port,
                                             reuse_address=True)
        except OSError as exc:
            raise HarnessError(f"fake device cannot listen on {self.ip}:{port}: {exc}")
        self.servers[port] = srv

    async def unlisten(self, port):
        srv = self.servers.pop(port, None)
        if srv is not None:
            srv.close()
            # Server.wait_closed() (3.12) waits for every accepted connection to end: never wait unboundedly
            try:
                await asyncio.wait_for(srv.wait_closed(), 0.2)
            except asyncio.TimeoutError:
                pass

    async def stop(self):
        for p in list(self.servers):
            await self.unlisten(p)
        for w in list(self._writers):
            try:
                w.close()
            except Exception:
                pass
        for _ in range(3):
            await asyncio.sleep(0)

    # -- scripting --------------------------------------------------------------------------
    def set_script(self, replies):
        self.script = deque(replies)
        self.unscripted = 0

    # -- connection handler -------------------------------------------------------------------
    async def _handle(self, port, reader, writer):
        peer = tuple(writer.get_extra_info("peername")[:2])
        conn = Conn(port, peer)
        self.conns.append(conn)
        self.open += 1
        self._writers.add(writer)
        buf = b""
        try:
            while True:
                try:
                    data = await reader.read(65536)
                except (ConnectionResetError, BrokenPipeError):
                    data = b""
                if not data:
                    break
                buf += data
                while buf:
                    q = _TAP.get(peer)
                    if q:
                        if len(buf) < q[0]:
                            break
                        n = q.popleft()
                        frame, buf = buf[:n], buf[n:]
                        await self._frame(conn, writer, frame, "")
                    else:
                        # bytes that no StreamWriter.write call accounts for: give the loop a few turns,
                        # then hand them over as one byte string so the client is never dead-locked
                        for _ in range(5):
                            await asyncio.sleep(0)
                        if not _TAP.get(peer):
                            frame, buf = buf, b""
                            await self._frame(conn, writer, frame, "untapped")
            if buf:
                await self._frame(conn, writer, buf, "leftover")
        finally:
            conn.client_eof = True
            self.open -= 1
            _TAP.pop(peer, None)
            self._writers.discard(writer)
            try:
                writer.close()
            except Exception:
                pass

    async def _frame(self, conn, writer, frame, flag):
        conn.frames.append(frame)
        conn.flags.append(flag)
        conn.times.append(time.time())
        if self.on_frame is not None:
            self.on_frame(conn, frame)
        if conn.responder is not None:
            rep = dict(conn.responder(frame))     # a device that answers by what was asked, not by position
        elif conn.script:
            rep = conn.script.popleft()
        elif self.script:
            rep = self.script.popleft()
        else:
            self.unscripted += 1
            rep = {"data": self.default_reply}
        for _ in range(rep.get("delay", 0)):
            await asyncio.sleep(0)
        if rep.get("sleep"):
            await asyncio.sleep(rep["sleep"])       # real seconds: a slow device (used sparingly)
        hook = rep.get("hook")
        if hook is not None:
            hook()
        if conn.half_closed:
            return
        if rep.get("eof"):
            conn.sent.append("EOF")
            conn.half_closed = True
            try:
                if writer.can_write_eof():
                    writer.write_eof()
            except (OSError, RuntimeError):
                pass
            return
        data = frame if rep.get("echo") else rep["data"]      # "echo": the device bounces the request back
        conn.sent.append(data)
        if data:
            try:
                writer.write(data)
                await writer.drain()
            except (ConnectionResetError, BrokenPipeError):
                pass

    async def kill_connections(self):
        """Drop every accepted connection (so a client that leaked a socket cannot disturb the next case)."""
        for w in list(self._writers):
            try:
                w.transport.abort()
            except Exception:
                pass
        for i in range(400):
            if self.open == 0:
                break
            await asyncio.sleep(0 if i < 300 else 0.001)

    # -- helpers for tests ----------------------------------------------------------------------
    def reset_log(self):
        self.conns = [c for c in self.conns if not c.client_eof]
        for c in self.conns:
            c.frames.clear()
            c.flags.clear()
            c.sent.clear()
            c.times.clear()

    async def wait_all_closed(self, turns=2000):
        for _ in range(turns):
            if self.open == 0:
                return True
            await asyncio.sleep(0)
        # fall back to a short real wait (FIN delivery is asynchronous in the kernel)
        for _ in range(200):
            if self.open == 0:
                return True
            await asyncio.sleep(0.01)
        return self.open == 0
