"""Operation catalogue: how each public API operation is invoked from a JSON case, which frames the
protocol model expects for it, and which replies a well-behaved device gives."""
import asyncio
import datetime as dt

from ..ref import irset, replies
from . import tcpdev
from .tcpdev import _TAP

KINDS1 = ["get_state", "control_on", "control_off", "set_auto_shutdown", "set_device_name", "get_schedules",
          "delete_schedule", "create_schedule"]
KINDS2 = ["stop", "set_position", "get_shutter_state", "get_breeze_state", "breeze_command", "breeze_swing_only",
          "breeze_status", "breeze_command_swing"]
KINDS = KINDS1 + KINDS2

# frame kinds (ref.wire names) per operation, after the login frame
FRAMES = {
    "get_state": ["get_state1"], "control_on": ["control"], "control_off": ["control"],
    "set_auto_shutdown": ["auto_shutdown"], "set_device_name": ["set_name"], "get_schedules": ["get_schedules"],
    "delete_schedule": ["delete_schedule"], "create_schedule": ["create_schedule"],
    "stop": ["runner_stop"], "set_position": ["runner_position"], "get_shutter_state": ["get_state2"],
    "get_breeze_state": ["get_state2"], "breeze_command": ["get_state2", "breeze_command"],
    "breeze_swing_only": ["breeze_command"], "breeze_status": ["get_state2", "breeze_status"],
    "breeze_command_swing": ["get_state2", "breeze_command", "breeze_command"],
}
DAY_NAMES = ["MONDAY", "TUESDAY", "WEDNESDAY", "THURSDAY", "FRIDAY", "SATURDAY", "SUNDAY"]


def api_type(kind):
    return 1 if kind in KINDS1 else 2


def login_kind(kind):
    return "login1" if kind in KINDS1 else "login2"


_SUBCLASSES = {}


def make_api(typ, ip, device_id, key, subclass=False):
    from aioswitcher import api
    cls = api.SwitcherType1Api if typ == 1 else api.SwitcherType2Api
    if subclass:
        # an application's own subclass (adds nothing): whatever the library decides by class must survive inheritance
        sub = _SUBCLASSES.get(cls)
        if sub is None:
            sub = _SUBCLASSES[cls] = type("My" + cls.__name__, (cls,), {"__doc__": "application subclass"})
        cls = sub
    return cls(ip, device_id, key)


def enums():
    from aioswitcher import device as d
    return d


def _state(on):
    d = enums()
    return d.DeviceState.ON if on else d.DeviceState.OFF


def _mode(name):
    return getattr(enums().ThermostatMode, name.upper())


def _fan(n):
    d = enums()
    return [d.ThermostatFanLevel.AUTO, d.ThermostatFanLevel.LOW, d.ThermostatFanLevel.MEDIUM, d.ThermostatFanLevel.HIGH][n]


def _swing(on):
    d = enums()
    return d.ThermostatSwing.ON if on else d.ThermostatSwing.OFF


_REMOTE_CACHE = {}


def remote_for(spec):
    from aioswitcher.api.remotes import SwitcherBreezeRemote
    from ..engine import canon
    k = canon(spec)
    r = _REMOTE_CACHE.get(k)
    if r is None:
        if len(_REMOTE_CACHE) > 64:
            _REMOTE_CACHE.clear()
        r = _REMOTE_CACHE[k] = (SwitcherBreezeRemote(irset.expand(spec)), irset.expand(spec))
    return r


def breeze_kwargs(req):
    """req: {state: None|bool, mode: None|name, target: int(0=omitted), fan: None|0..3, swing: None|bool}"""
    kw = {}
    if req.get("state") is not None:
        kw["state"] = _state(req["state"])
    if req.get("mode") is not None:
        kw["mode"] = _mode(req["mode"])
    if req.get("target"):
        kw["target_temp"] = req["target"]
    if req.get("fan") is not None:
        kw["fan_level"] = _fan(req["fan"])
    if req.get("swing") is not None:
        kw["swing"] = _swing(req["swing"])
    return kw


def invoke(api, kind, a):
    """Coroutine performing the operation with the case's arguments."""
    from aioswitcher.api import Command
    from aioswitcher.schedule import Days
    if kind == "get_state":
        return api.get_state()
    if kind == "control_on":
        return api.control_device(Command.ON, a.get("minutes", 0)) if "minutes" in a else api.control_device(Command.ON)
    if kind == "control_off":
        return api.control_device(Command.OFF, a.get("minutes", 0)) if "minutes" in a else api.control_device(Command.OFF)
    if kind == "set_auto_shutdown":
        return api.set_auto_shutdown(dt.timedelta(seconds=a["seconds"], microseconds=a.get("micros", 0)))
    if kind == "set_device_name":
        return api.set_device_name(a["name"])
    if kind == "get_schedules":
        return api.get_schedules()
    if kind == "delete_schedule":
        return api.delete_schedule(a["slot"])
    if kind == "create_schedule":
        days = a.get("days")
        if days is None:
            return api.create_schedule(a["start"], a["end"])
        form = a.get("days_form", "set")
        seq = [getattr(Days, n) for n in days]
        arg = {"set": set, "frozenset": frozenset, "list": list, "tuple": tuple}[form](seq)
        return api.create_schedule(a["start"], a["end"], arg)
    if kind == "stop":
        return api.stop()
    if kind == "set_position":
        return api.set_position(a["position"]) if "position" in a else api.set_position()
    if kind == "get_shutter_state":
        return api.get_shutter_state()
    if kind == "get_breeze_state":
        return api.get_breeze_state()
    if kind.startswith("breeze_"):
        remote, _ = remote_for(a["ir"])
        kw = breeze_kwargs(a["req"])
        if kind == "breeze_status":
            kw["update_state"] = True
        return api.control_breeze_device(remote, **kw)
    raise KeyError(kind)


def thermostat_reply(cur, salt=7):
    return replies.thermostat(cur["on"], irset.MODE_BYTE[cur["mode"]], cur["fan"], 1 if cur["swing"] else 0,
                              cur.get("temp_tenths", 231), cur["target"], cur.get("remote_id", "ELEC7001"), salt=salt)


DEFAULT_CUR = {"on": True, "mode": "cool", "fan": 1, "swing": False, "target": 24, "temp_tenths": 255,
               "remote_id": "ELEC7001"}


def good_script(kind, a, session, salt=1, delays=None, login_len=44):
    """Replies of a well-behaved device for this operation (login reply first)."""
    out = [{"data": replies.login(session, login_len, salt)}]
    for fk in FRAMES[kind]:
        if fk == "get_state1":
            out.append({"data": replies.state1(True, 1500, 3000, 600, 7200, salt=salt + 1)})
        elif fk == "get_state2":
            if kind == "get_shutter_state":
                out.append({"data": replies.shutter(40, "stop", salt=salt + 1)})
            else:
                out.append({"data": thermostat_reply(a.get("cur", DEFAULT_CUR), salt=salt + 1)})
        elif fk == "get_schedules":
            out.append({"data": a.get("schedules_reply") or replies.schedules([])})
        else:
            out.append({"data": replies.ack(48 + salt % 8, salt + 2)})
    if delays:
        for r, d in zip(out, delays):
            r["delay"] = d
    return out


async def guarded(coro, timeout):
    """("ok", result) | ("raise", exc) | ("timeout", None) - the last one only when the harness guard expired.

    The operation runs in the CALLER's task (no wrapper task): context variables set by the library behave as they do in an
    application that simply awaits the call."""
    cm = asyncio.timeout(timeout)
    try:
        async with cm:
            return ("ok", await coro)
    except TimeoutError as exc:
        if cm.expired():
            return ("timeout", None)
        return ("raise", exc)
    except asyncio.CancelledError:
        raise
    except Exception as exc:  # noqa
        return ("raise", exc)


class Client:
    """An API object connected to the fake device, with the device-side connection record."""

    def __init__(self, dev, typ, device_id, key, subclass=False):
        self.dev = dev
        self.typ = typ
        self.device_id = device_id
        self.key = key
        self.api = make_api(typ, dev.ip, device_id, key, subclass)
        self.conn = None

    async def connect(self):
        n = len(self.dev.conns)
        await self.api.connect()
        for _ in range(10000):
            if len(self.dev.conns) > n:
                break
            await asyncio.sleep(0)
        else:
            await asyncio.sleep(0.05)
        if len(self.dev.conns) <= n:
            raise tcpdev.HarnessError("fake device never saw the connection")
        self.conn = self.dev.conns[-1]
        return self.conn

    async def settle(self):
        """Wait until every byte string the client wrote has been cut into a frame by the device."""
        peer = self.conn.peer
        for i in range(20000):
            q = _TAP.get(peer)
            if not q:
                return
            await asyncio.sleep(0 if i < 5000 else 0.001)

    async def call(self, kind, a, timeout=40.0):
        """Run one operation; returns ("ok", result) | ("raise", exc) | ("timeout", None).

        "timeout" means the HARNESS guard expired (the operation never ended); a TimeoutError raised by the code under
        test is an ordinary ("raise", exc)."""
        out = await guarded(invoke(self.api, kind, a), timeout)
        await self.settle()
        return out

    async def close(self):
        try:
            await self.api.disconnect()
        except Exception:
            pass
