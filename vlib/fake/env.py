"""Per-process shared fake device."""
import os

from . import tcpdev

_ENV = {}


async def device():
    ent = _ENV.get("dev")
    if ent is None or ent[0] != os.getpid():
        dev = tcpdev.FakeDevice()
        await dev.start()
        ent = _ENV["dev"] = (os.getpid(), dev)
    return ent[1]
