"""Per-process shared fake device."""
import os

from . import tcpdev

_ENV = {}


async def device():
    ent = _ENV.get("dev")
    if ent is None or ent[0] != os.getpid():
        dev = tcpdev.FakeDevice()
        await dev.start()
        ent = _ENV["dev"] = (os.getpid(), dev)
    dev = ent[1]
    if len(dev.conns) > 400:        # called at the start of a case: forget connections that ended long ago
        dev.conns = [c for c in dev.conns if not c.client_eof]
    return dev


async def restart_on_new_loop_prepare():
    """Before net.new_loop(): take the shared fake device down (its servers live on the old loop)."""
    ent = _ENV.pop("dev", None)
    if ent is not None and ent[0] == os.getpid():
        await ent[1].kill_connections()
        await ent[1].stop()
