"""Broadcast rig: a real SwitcherBridge on private UDP ports fed from a plain socket over loopback.

Windows of <= WINDOW datagrams per port are closed by a sentinel broadcast; asyncio reads one datagram per
socket per loop turn, so the rig yields to the loop until the sentinel's callback is seen.  Kernel drops
(/proc/net/udp) make a case inconclusive, never a violation.
"""
import asyncio
import logging
import socket
import time
import warnings

from ..engine import Inconclusive
from ..ref import broadcast as refb
from . import net

WINDOW = 20
SENTINEL_ID = "fffefd"
SENTINEL_NAME = "~sentinel~"        # a generated device may well carry the id; the name prefix makes a sentinel


class _LogTap(logging.Handler):
    def __init__(self, sink):
        super().__init__(level=logging.WARNING)
        self.sink = sink

    def emit(self, record):
        try:
            self.sink.append((record.levelname, record.getMessage()))
        except Exception:
            self.sink.append((record.levelname, str(record.msg)))


def kernel_rx_queue(port):
    """Bytes waiting in the kernel receive queue of the UDP socket bound to `port` (None if there is no such socket)."""
    try:
        with open("/proc/net/udp", encoding="utf-8") as fh:
            next(fh)
            for line in fh:
                parts = line.split()
                if int(parts[1].split(":")[1], 16) == port:
                    return int(parts[4].split(":")[1], 16)
    except Exception:
        return None
    return None


USER_EXCEPTIONS = [RuntimeError, KeyError, ValueError, AttributeError, OSError, LookupError, TypeError, ZeroDivisionError]


class DeliveryStopped(Exception):
    def __init__(self, ports):
        super().__init__(f"no delivery on ports {ports}")
        self.ports = ports


def kernel_drops(port):
    try:
        with open("/proc/net/udp", encoding="utf-8") as fh:
            next(fh)
            for line in fh:
                parts = line.split()
                if int(parts[1].split(":")[1], 16) == port:
                    return int(parts[-1])
    except Exception:
        return 0
    return 0


def transports_held_by(obj, depth=3):
    """Every object reachable from obj's attributes (through dicts, lists, tuples, sets; a few levels deep) that looks like
    an asyncio transport.  Used only to tidy up after a tree that leaves sockets behind."""
    found, seen = [], set()

    def walk(x, d):
        if id(x) in seen or d < 0:
            return
        seen.add(id(x))
        if isinstance(x, asyncio.BaseTransport) or (hasattr(x, "close") and hasattr(x, "get_extra_info") and hasattr(x, "is_closing")):
            found.append(x)
            return
        if isinstance(x, dict):
            for v in list(x.values()):
                walk(v, d - 1)
        elif isinstance(x, (list, tuple, set, frozenset)):
            for v in list(x):
                walk(v, d - 1)
        elif hasattr(x, "__dict__") and d > 0 and type(x).__module__.startswith("aioswitcher"):
            for v in list(vars(x).values()):
                walk(v, d - 1)
    try:
        for v in list(vars(obj).values()):
            walk(v, depth)
    except TypeError:
        pass
    return found


class Rig:
    def __init__(self, nports=1):
        self.ports = net.udp_ports(nports)
        self.callbacks = []          # device objects in invocation order
        self.raise_on = set()        # invocation indices (0-based, sentinels not counted) on which the callback raises
        self.raise_salt = 0          # rotates the exception class raised
        self.hook = None             # callable(device) run inside the user callback
        self.scribble = False        # the callback modifies the object it was handed (after the harness copied it)
        self.invocations = 0
        self.loop_errors = []
        self.log_records = []
        self.py_warnings = []
        self.sentinels_seen = set()
        self._sentinel_names = set()     # exact names of the sentinels this rig sent (composed at run time: a generator that
                                         # recycles literals from the harness source cannot produce one)
        self.sentinel_no = 0
        self.bridge = None
        self.tx = socket.socket(socket.AF_INET, socket.SOCK_DGRAM)
        self.tx.setblocking(False)
        self._pending = {p: 0 for p in self.ports}
        self.quiet_windows = False   # True: windows are closed by waiting for the kernel queue to empty, not by a sentinel
                                     # (a sentinel is a valid broadcast and would break up a run of failing datagrams)
        self._tap = _LogTap(self.log_records)
        self._old_handler = None
        self._warn_ctx = None

    # -- user callback handed to the bridge ---------------------------------------------------
    def on_device(self, device):
        if getattr(device, "device_id", None) == SENTINEL_ID and getattr(device, "name", None) in self._sentinel_names:
            self.sentinels_seen.add(getattr(device, "name", ""))
            return
        idx = self.invocations
        self.invocations += 1
        if self.hook is not None:
            self.hook(device)              # user code running inside the callback (its exceptions are caught by the hook)
        if self.scribble:
            # the application keeps working on what it was handed (optimistic state updates, renaming): what the NEXT
            # callback gets must not be affected.  The harness judges a copy taken before the scribbling.
            import copy
            self.callbacks.append(copy.copy(device))
            for attr, val in (("device_state", None), ("name", "scribbled"), ("ip_address", "0.0.0.0"), ("position", -1),
                              ("power_consumption", -1), ("target_temperature", -1), ("remote_id", "scribbled")):
                if hasattr(device, attr):
                    try:
                        object.__setattr__(device, attr, val)
                    except Exception:
                        pass
        else:
            self.callbacks.append(device)
        if idx in self.raise_on:
            # user code fails in whatever way user code fails: the class of the exception must not matter
            exc = USER_EXCEPTIONS[(idx + self.raise_salt) % len(USER_EXCEPTIONS)]
            raise exc(f"user callback failure #{idx}")

    # -- life cycle -------------------------------------------------------------------------
    def callback(self, form="bound-method"):
        """The user callback in one of several legitimate shapes (all end up in self.on_device)."""
        import functools
        if form == "function":
            def on_device(device):
                return self.on_device(device)
            return on_device
        if form == "partial":
            return functools.partial(Rig.on_device, self)
        if form == "unreferenced-owner":
            # bound method of an object nobody else keeps alive: the bridge's reference must be enough
            class Handler:
                def __init__(self, sink):
                    self.sink = sink

                def handle(self, device):
                    return self.sink(device)
            return Handler(self.on_device).handle      # CPython frees an unreferenced owner at once (refcount)
        if form == "falsy-callable":
            # a callable collection that is empty (falsy) when the bridge is built
            rig = self

            class Devices(list):
                def __call__(self, device):
                    self.append(device)
                    return rig.on_device(device)
            return Devices()
        return self.on_device

    def make_bridge(self, form="bound-method", container="list"):
        from aioswitcher.bridge import SwitcherBridge
        self.bridge = SwitcherBridge(self.callback(form), {"list": list, "tuple": tuple}[container](self.ports))
        return self.bridge

    def observe(self):
        lp = asyncio.get_running_loop()
        self._old_handler = lp.get_exception_handler()
        lp.set_exception_handler(lambda loop, ctx: self.loop_errors.append(
            f"{type(ctx.get('exception')).__name__}: {ctx.get('exception')}" if ctx.get("exception") else ctx.get("message")))
        logging.getLogger("aioswitcher").addHandler(self._tap)
        self._warn_ctx = warnings.catch_warnings(record=True)
        self._wlist = self._warn_ctx.__enter__()
        warnings.simplefilter("always")

    def unobserve(self):
        lp = asyncio.get_running_loop()
        lp.set_exception_handler(self._old_handler)
        logging.getLogger("aioswitcher").removeHandler(self._tap)
        if self._warn_ctx is not None:
            self.py_warnings.extend(self._mine(self._wlist))
            self._warn_ctx.__exit__(None, None, None)
            self._warn_ctx = None

    def warnings_so_far(self):
        return list(self.py_warnings) + (self._mine(self._wlist) if self._warn_ctx else [])

    @staticmethod
    def _mine(wlist):
        """Only warnings raised from the code under test (ResourceWarnings etc. of the harness do not count)."""
        from ..boot import in_repo
        return [(w.category.__name__, str(w.message)) for w in wlist
                if in_repo(w.filename) or "switcher" in str(w.message).lower()]

    async def start(self, form="bound-method"):
        self.make_bridge(form)
        self.observe()
        await self.bridge.start()

    async def stop(self):
        try:
            if self.bridge is not None:
                await self.bridge.stop()
        finally:
            self.unobserve()
            for _ in range(3):
                await asyncio.sleep(0)
            self.tx.close()

    # -- sending ------------------------------------------------------------------------------
    def sentinel_bytes(self, name):
        return refb.encode(dict(model="01a8", device_id=SENTINEL_ID, key=1, name=name, ip=[127, 0, 0, 1],
                                mac=[2, 0, 0, 0, 0, 1], on=False, power=0, remaining=0, auto_shutdown=0))

    async def send(self, port, data):
        if self._pending[port] >= WINDOW:
            if self.quiet_windows:
                await self.drain(port)
            else:
                dead = await self.barrier([port])
                if dead:
                    raise DeliveryStopped(dead)
        self.tx.sendto(data, ("127.0.0.1", port))
        self._pending[port] += 1

    async def drain(self, port):
        """Wait until the bridge has read everything queued for `port` (no sentinel involved)."""
        deadline = time.monotonic() + 2.0
        i = 0
        while True:
            q = kernel_rx_queue(port)
            if q is None:
                # no such socket (the bridge went deaf) or /proc/net/udp cannot be read: fall back to a sentinel
                dead = await self.barrier([port])
                if dead:
                    raise DeliveryStopped(dead)
                return
            if not q:
                break
            i += 1
            if time.monotonic() > deadline and i > 3000:
                break
            await asyncio.sleep(0 if i < 3000 else 0.001)
        await asyncio.sleep(0)
        self._pending[port] = 0
        if kernel_drops(port):
            raise Inconclusive(f"kernel dropped datagrams on port {port}")

    async def barrier(self, ports=None, what="bridge stopped delivering"):
        """Send a sentinel to each port and wait until its callback ran.  Returns the ports that never answered."""
        dead = []
        for port in (ports or self.ports):
            name = None
            ok = False
            for attempt in range(3):
                self.sentinel_no += 1
                name = f"{SENTINEL_NAME}{self.sentinel_no}"
                self._sentinel_names.add(name)
                self.tx.sendto(self.sentinel_bytes(name), ("127.0.0.1", port))
                deadline = time.monotonic() + (1.0 if attempt == 0 else 0.3)
                i = 0
                # give up only after the wall-clock deadline AND a generous number of loop turns: a process that was
                # descheduled past the deadline has not given the bridge a chance to read yet
                while name not in self.sentinels_seen and (time.monotonic() < deadline or i < 3000):
                    i += 1
                    await asyncio.sleep(0 if i < 3000 else 0.001)
                if name in self.sentinels_seen:
                    ok = True
                    break
            self._pending[port] = 0
            if kernel_drops(port):
                raise Inconclusive(f"kernel dropped datagrams on port {port}")
            if ok and attempt > 0:
                raise Inconclusive("sentinel needed a retransmission")
            if not ok:
                dead.append(port)
        return dead
