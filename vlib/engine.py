"""Runner shared by all property modules.

A property module exposes
    PROP, LEVEL, RULE, ASSUMPTIONS, DESIGN_REF
    subchecks(tier) -> [Sub]
Each Sub owns a *body(rep, case)* taking a JSON-serialisable case; the body calls
rep.tick(...) for accounting and raises Violation(signature, ...) when the oracle fails.
The same body is driven by Hypothesis (Sub.hyp), by plain enumeration (Sub.enum) or by a
replay file, so a shrunk failure re-executes without Hypothesis.
"""
import hashlib
import json
import multiprocessing
import os
import sys
import time
import traceback
from collections import Counter

from .boot import HarnessError, VARIANT, VERIF_DIR, in_repo, variant_env

try:
    SCALE = min(1.0, max(0.01, float(os.environ.get("VERIF_SCALE") or 1)))
except ValueError:
    SCALE = 1.0
HOST_VARIANT = "hostile-host"
HOST_VARIANT_SCALE = 0.3

MAX_ROUNDS = 3
DISTINCT_CAP_WORKER = 400_000   # memory bound for the distinct/non-trivial set: beyond it the count is a lower bound
DISTINCT_CAP_TOTAL = 6_000_000
SHRINK_SECONDS = 25.0     # wall-clock budget for shrinking one failure (never a correctness signal)


class Violation(Exception):
    def __init__(self, signature, case=None, expected=None, observed=None, detail=""):
        super().__init__(signature)
        self.signature = signature
        self.case = case
        self.expected = expected
        self.observed = observed
        self.detail = detail


class Inconclusive(Exception):
    """Environment could not decide this case (e.g. kernel dropped a datagram)."""


def jsonable(x):
    if isinstance(x, (bytes, bytearray)):
        return {"hex": bytes(x).hex()}
    if isinstance(x, dict):
        return {str(k): jsonable(v) for k, v in x.items()}
    if isinstance(x, (list, tuple)):
        return [jsonable(v) for v in x]
    if isinstance(x, (set, frozenset)):
        return sorted((jsonable(v) for v in x), key=repr)
    if isinstance(x, (str, int, float, bool)) or x is None:
        return x
    return repr(x)


def canon(x) -> str:
    return json.dumps(jsonable(x), sort_keys=True, ensure_ascii=True, default=repr)


def digest(x) -> bytes:
    if not isinstance(x, (str, bytes)):
        x = canon(x)
    if isinstance(x, str):
        x = x.encode("utf-8", "surrogatepass")
    return hashlib.blake2b(x, digest_size=8).digest()


class Reporter:
    """Counters filled by the oracles; mergeable across worker processes."""

    def __init__(self, prop, tier, seed):
        self.prop, self.tier, self.seed = prop, tier, seed
        self.evaluations = 0
        self.labels = Counter()
        self.nontrivial = set()
        self.samples = {}
        self.violations = {}
        self.excluded = Counter()
        self.ignored = set()
        self.inconclusive = 0
        self.per_sub = Counter()
        self.notes = []

    # -- accounting -------------------------------------------------------------------
    def tick(self, sub, key=None, nontrivial=False, labels=(), sample=None, n=1):
        self.evaluations += n
        self.per_sub[sub] += n
        for lab in labels:
            self.labels[lab] += n
        if nontrivial:
            if len(self.nontrivial) < DISTINCT_CAP_WORKER:
                self.nontrivial.add(digest(key if key is not None else sample))
            else:
                self.labels["distinct-count-capped(lower-bound)"] += n
        if sample is not None:
            cnt = self.per_sub[sub]
            lst = self.samples.setdefault(sub, [])
            if len(lst) < 3 and (cnt == 1 or (cnt & (cnt - 1)) == 0 and cnt >= 64):
                lst.append(jsonable(sample))

    def label(self, lab, n=1):
        self.labels[lab] += n

    def record(self, sub, v: Violation):
        rec = {
            "property": self.prop,
            "subcheck": sub,
            "signature": v.signature,
            "case": jsonable(v.case),
            "expected": jsonable(v.expected),
            "observed": jsonable(v.observed),
            "detail": v.detail,
        }
        size = len(canon(rec["case"]))
        old = self.violations.get(v.signature)
        if old is None or size < old["_size"]:
            rec["_size"] = size
            self.violations[v.signature] = rec

    # -- merging ----------------------------------------------------------------------
    def dump(self):
        return {
            "evaluations": self.evaluations,
            "labels": dict(self.labels),
            "nontrivial": self.nontrivial,
            "samples": self.samples,
            "violations": self.violations,
            "excluded": dict(self.excluded),
            "inconclusive": self.inconclusive,
            "per_sub": dict(self.per_sub),
            "notes": self.notes,
        }

    def merge(self, d):
        self.evaluations += d["evaluations"]
        self.labels.update(d["labels"])
        if len(self.nontrivial) < DISTINCT_CAP_TOTAL:
            self.nontrivial |= d["nontrivial"]
        else:
            self.labels["distinct-count-capped(lower-bound)"] += len(d["nontrivial"])
        for sub, lst in d["samples"].items():
            mine = self.samples.setdefault(sub, [])
            for s in lst:
                if len(mine) < 3:
                    mine.append(s)
        for sig, rec in d["violations"].items():
            old = self.violations.get(sig)
            if old is None or rec["_size"] < old["_size"]:
                self.violations[sig] = rec
        self.excluded.update(d["excluded"])
        self.inconclusive += d["inconclusive"]
        self.per_sub.update(d["per_sub"])
        self.notes.extend(d["notes"])


class Sub:
    """One independent sub-check (its own Hypothesis run or enumeration)."""

    def __init__(self, name, body, strategy=None, cases=None, n=0, shards=1,
                 shrink_budget=300, exhaustive=False, machine=None, steps=30, setup=None):
        self.name = name
        self.body = body
        self.strategy = strategy      # zero-arg callable returning a Hypothesis strategy
        self.cases = cases            # zero-arg callable returning a list of cases
        self.n = n
        self.shards = shards
        self.shrink_budget = shrink_budget
        self.exhaustive = exhaustive
        self.machine = machine        # callable(rep) -> RuleBasedStateMachine subclass
        self.steps = steps
        self.setup = setup


def derive_seed(seed, name, shard):
    h = hashlib.blake2b(f"{seed}/{name}/{shard}{VARIANT and '/' + VARIANT}".encode(), digest_size=4).digest()
    return int.from_bytes(h, "big")


def _classify_exception(sub, exc, case):
    """Exception that is neither Violation nor HarnessError escaping a body."""
    tb = traceback.extract_tb(exc.__traceback__)
    repo_frames = [f for f in tb if in_repo(f.filename)]
    if repo_frames:
        inner = repo_frames[-1]
        return Violation(
            f"{sub}/unexpected-{type(exc).__name__}@{inner.name}",
            case=case, expected="no exception of this kind",
            observed=f"{type(exc).__name__}: {exc}",
            detail="".join(traceback.format_exception(type(exc), exc, exc.__traceback__))[-2000:],
        )
    return None


def _call_body(rep, sub, case):
    try:
        sub.body(rep, case)
    except (Violation, HarnessError, Inconclusive):
        raise
    except Exception as exc:  # noqa
        if type(exc).__module__.startswith("hypothesis"):
            raise
        v = _classify_exception(sub.name, exc, case)
        if v is None:
            raise HarnessError(
                f"{sub.name}: harness exception {type(exc).__name__}: {exc}\n"
                + "".join(traceback.format_exception(type(exc), exc, exc.__traceback__))
            ) from exc
        raise v from exc


def _run_enum(rep, sub, cases):
    t_first = None
    for case in cases:
        if t_first is not None and time.time() - t_first > SHRINK_SECONDS:
            rep.notes.append(f"{sub.name}: enumeration stopped {SHRINK_SECONDS:.0f}s after the first violation")
            break
        try:
            _call_body(rep, sub, case)
        except Inconclusive:
            rep.inconclusive += 1
        except Violation as v:
            if v.signature in rep.ignored:
                rep.excluded[v.signature] += 1
            else:
                rep.record(sub.name, v)
                if t_first is None:
                    t_first = time.time()


def _run_hyp(rep, sub, n, seedval):
    from hypothesis import HealthCheck, Phase, given, seed, settings
    from hypothesis import errors as herr

    strategy = sub.strategy()
    st = {"fails": 0, "failed": set(), "round_new": set()}

    def wrapped(case):
        if st["fails"] >= sub.shrink_budget or (st["fails"] and time.time() - st["t_first"] > SHRINK_SECONDS):
            if canon(case) not in st["failed"]:
                return
        if st["excl_time"] > SHRINK_SECONDS:
            return      # the tree already violates; cases hitting an excluded signature used up this round's budget
        t_case = time.time()
        try:
            _call_body(rep, sub, case)
        except Inconclusive:
            rep.inconclusive += 1
            return
        except Violation as v:
            if v.signature in rep.ignored:
                rep.excluded[v.signature] += 1
                st["excl_time"] += time.time() - t_case
                return
            if v.case is None:
                v.case = case
            rep.record(sub.name, v)
            if not st["fails"]:
                st["t_first"] = time.time()
            st["fails"] += 1
            st["failed"].add(canon(case))
            st["round_new"].add(v.signature)
            raise

    for _round in range(MAX_ROUNDS):
        st["fails"] = 0
        st["failed"] = set()
        st["round_new"] = set()
        st["excl_time"] = 0.0
        test = seed(seedval)(
            settings(
                max_examples=n, database=None, deadline=None, derandomize=False,
                report_multiple_bugs=False, print_blob=False,
                suppress_health_check=list(HealthCheck),
                phases=(Phase.explicit, Phase.generate, Phase.target, Phase.shrink),
            )(given(strategy)(wrapped))
        )
        try:
            test()
        except Violation:
            pass
        except HarnessError:
            raise
        except (herr.Flaky, herr.FlakyFailure) as exc:  # type: ignore[attr-defined]
            if not st["round_new"] and not rep.violations:
                raise HarnessError(f"{sub.name}: flaky test: {exc}") from exc
        except herr.HypothesisException as exc:
            raise HarnessError(f"{sub.name}: hypothesis error {type(exc).__name__}: {exc}") from exc
        if not st["round_new"]:
            break
        rep.ignored |= st["round_new"]


def _run_machine(rep, sub, n, seedval):
    from hypothesis import HealthCheck, Phase, seed, settings
    from hypothesis import errors as herr
    from hypothesis.stateful import run_state_machine_as_test

    for _round in range(MAX_ROUNDS):
        new = set()
        machine_cls = sub.machine(rep, new)
        try:
            run_state_machine_as_test(
                seed(seedval)(machine_cls),
                settings=settings(
                    max_examples=n, stateful_step_count=sub.steps, database=None, deadline=None,
                    derandomize=False, report_multiple_bugs=False, print_blob=False,
                    suppress_health_check=list(HealthCheck),
                    phases=(Phase.explicit, Phase.generate, Phase.target, Phase.shrink),
                ),
            )
        except Violation:
            pass
        except HarnessError:
            raise
        except (herr.Flaky, herr.FlakyFailure) as exc:  # type: ignore[attr-defined]
            if not new and not rep.violations:
                raise HarnessError(f"{sub.name}: flaky machine: {exc}") from exc
        except herr.HypothesisException as exc:
            raise HarnessError(f"{sub.name}: hypothesis error {type(exc).__name__}: {exc}") from exc
        if not new:
            break
        rep.ignored |= new


_MODULE = None
_SUBS = None
_CTX = None


def _worker(task):
    idx, shard, nshards, ignored = task
    prop, tier, seed = _CTX
    sub = _SUBS[idx]
    rep = Reporter(prop, tier, seed)
    rep.ignored = set(ignored)
    t0 = time.time()
    try:
        if sub.setup:
            sub.setup()
        if sub.cases is not None:
            cases = sub.cases()[shard::nshards]
            if SCALE < 1:
                stride = max(1, round(1 / SCALE))
                cases = cases[derive_seed(seed, sub.name, shard) % stride::stride]
            _run_enum(rep, sub, cases)
        elif sub.machine is not None:
            n = max(1, int(sub.n * SCALE) // nshards)
            _run_machine(rep, sub, n, derive_seed(seed, sub.name, shard))
        else:
            n = max(1, int(sub.n * SCALE) // nshards)
            _run_hyp(rep, sub, n, derive_seed(seed, sub.name, shard))
    except HarnessError as exc:
        return {"harness_error": f"{sub.name}[{shard}]: {exc}"}
    except Exception as exc:  # noqa
        return {"harness_error": f"{sub.name}[{shard}]: {type(exc).__name__}: {exc}\n"
                + traceback.format_exc()}
    d = rep.dump()
    d["sub"] = sub.name
    d["wall"] = time.time() - t0
    return d


def load_known(prop):
    path = os.path.join(VERIF_DIR, "known_findings.json")
    if not os.path.exists(path):
        return []
    with open(path, encoding="utf-8") as fh:
        data = json.load(fh)
    return [e for e in data.get("findings", []) if e.get("property") == prop]


def load_regress(prop):
    d = os.path.join(VERIF_DIR, "regress", prop)
    out = []
    if os.path.isdir(d):
        for fn in sorted(os.listdir(d)):
            if fn.endswith(".json"):
                with open(os.path.join(d, fn), encoding="utf-8") as fh:
                    out.append((fn, json.load(fh)))
    return out


def write_replay(prop, rec):
    d = os.path.join(os.environ.get("VERIF_REPLAY_DIR") or os.path.join(VERIF_DIR, "replays"), prop)
    os.makedirs(d, exist_ok=True)
    name = hashlib.blake2b((rec["signature"] + VARIANT).encode(), digest_size=6).hexdigest() + ".json"
    path = os.path.join(d, name)
    out = {k: v for k, v in rec.items() if not k.startswith("_")}
    if VARIANT:
        out["variant"] = VARIANT      # ./check --replay re-executes itself in that environment
    with open(path, "w", encoding="utf-8") as fh:
        json.dump(out, fh, indent=1, sort_keys=True)
    rel = os.path.relpath(path, VERIF_DIR)
    return path if rel.startswith("..") else rel


def run_property(module, tier, seed, jobs=None):
    global _MODULE, _SUBS, _CTX
    t0 = time.time()
    prop = module.PROP
    subs = module.subchecks(tier)
    _MODULE, _SUBS, _CTX = module, subs, (prop, tier, seed)
    known = load_known(prop)
    open_sigs = {e["signature"]: e for e in known if e.get("status") == "open"}
    rep = Reporter(prop, tier, seed)

    # 1. regression replays (plain, no Hypothesis)
    by_name = {s.name: s for s in subs}
    for fn, rec in load_regress(prop):
        sub = by_name.get(rec["subcheck"])
        if sub is None:
            raise HarnessError(f"regress/{prop}/{fn}: unknown subcheck {rec['subcheck']}")
        if sub.setup:
            sub.setup()
        try:
            _call_body(rep, sub, rec["case"])
            rep.label("regress-replayed")
        except Inconclusive:
            rep.inconclusive += 1
        except Violation as v:
            if v.signature in open_sigs:
                rep.excluded[v.signature] += 1
            else:
                if v.case is None:
                    v.case = rec["case"]
                rep.record(sub.name, v)

    # 2. the search
    if jobs is None:
        jobs = int(os.environ.get("VERIF_JOBS", "0")) or (16 if tier == "thorough" else 8)
    jobs = max(1, min(jobs, os.cpu_count() or 1))
    tasks = []
    for i, s in enumerate(subs):
        ns = max(1, min(s.shards, jobs))
        for sh in range(ns):
            tasks.append((i, sh, ns, sorted(open_sigs)))
    errors = []
    child = _spawn_variant(prop, tier, seed, jobs, module)
    if jobs == 1 or len(tasks) == 1:
        results = [_worker(t) for t in tasks]
    else:
        ctx = multiprocessing.get_context("fork")
        with ctx.Pool(min(jobs, len(tasks))) as pool:
            results = pool.map(_worker, tasks, chunksize=1)
    sub_wall = Counter()
    for r in results:
        if "harness_error" in r:
            errors.append(r["harness_error"])
            continue
        rep.merge(r)
        sub_wall[r["sub"]] += r["wall"]
    if errors:
        _reap_variant(child, kill=True)
        for e in errors:
            print("HARNESS-ERROR:", e, file=sys.stderr)
        return 2

    # 3. verdict
    new = {s: r for s, r in rep.violations.items() if s not in open_sigs}
    # the host-variant pass only matters when the ordinary pass is clean (a broken tree fails both the same way)
    variant = _reap_variant(child, kill=bool(new))
    if variant and variant.get("harness_error"):
        print("HARNESS-ERROR: host-variant pass:", variant["harness_error"], file=sys.stderr)
        return 2
    wall = time.time() - t0
    for sig, e in open_sigs.items():
        print(f"KNOWN-FINDING: property={prop} {e.get('what', sig)}")
    vlines = (variant or {}).get("violation_lines", [])
    write_evidence(module, rep, subs, wall, len(new) + len(vlines) // 4, sub_wall, variant)
    if vlines:
        for ln in vlines:
            print(ln)
        print(f"{prop} tier={tier} seed={seed}: {rep.evaluations} evaluations, {len(rep.nontrivial)} distinct non-trivial, "
              f"0 violation signature(s) in the ordinary pass, {len(vlines) // 4} only under {HOST_VARIANT} "
              f"({variant['summary'].get('env')}), {wall:.1f}s")
        return 1
    for sig, rec in sorted(new.items()):
        path = write_replay(prop, rec)
        print(f"VIOLATION property={prop} replay={path}")
        print(f"  signature: {sig}" + (f" @{VARIANT}" if VARIANT else ""))
        print(f"  expected:  {canon(rec['expected'])[:300]}")
        print(f"  observed:  {canon(rec['observed'])[:300]}")
    print(f"{prop} tier={tier} seed={seed}: {rep.evaluations} evaluations, "
          f"{len(rep.nontrivial)} distinct non-trivial, {len(new)} violation signature(s), "
          f"{rep.inconclusive} inconclusive, {wall:.1f}s")
    return 1 if new else 0


def _spawn_variant(prop, tier, seed, jobs, module):
    """Second pass: a sample of every sub-check in a child interpreter with assert statements stripped (python -O) and
    the C locale without UTF-8 mode.  Runs beside the ordinary pass."""
    if VARIANT or os.environ.get("VERIF_NO_VARIANT") or not getattr(module, "HOST_VARIANT", True):
        return None
    import subprocess
    import tempfile
    td = tempfile.mkdtemp(prefix="aiosw-variant-")
    env = variant_env(HOST_VARIANT)
    env.update(VERIF_SCALE=str(HOST_VARIANT_SCALE), VERIF_EVIDENCE_DIR=os.path.join(td, "ev"),
               VERIF_REPLAY_DIR=os.environ.get("VERIF_REPLAY_DIR") or os.path.join(VERIF_DIR, "replays"))
    cmd = [sys.executable, "-B", os.path.join(VERIF_DIR, "check"), prop, "--tier", tier, "--seed", str(seed),
           "--jobs", str(max(1, jobs // 2))]
    out = open(os.path.join(td, "stdout"), "w+", encoding="utf-8")
    err = open(os.path.join(td, "stderr"), "w+", encoding="utf-8")
    proc = subprocess.Popen(cmd, env=env, stdout=out, stderr=err, start_new_session=True)
    return {"proc": proc, "dir": td, "out": out, "err": err, "env": {k: env[k] for k in ("PYTHONOPTIMIZE", "LC_ALL", "PYTHONUTF8")},
            "prop": prop}


def _reap_variant(child, kill=False):
    if child is None:
        return None
    import shutil
    import signal
    proc = child["proc"]
    try:
        if kill:
            try:
                os.killpg(proc.pid, signal.SIGKILL)
            except OSError:
                pass
            proc.wait()
            return None
        try:
            rc = proc.wait(timeout=3 * 3600)
        except Exception:
            os.killpg(proc.pid, signal.SIGKILL)
            proc.wait()
            return {"harness_error": "timed out"}
        child["out"].seek(0)
        child["err"].seek(0)
        stdout, stderr = child["out"].read(), child["err"].read()
        if rc not in (0, 1):
            return {"harness_error": f"exit status {rc}: {stderr[-1500:]}"}
        try:
            with open(os.path.join(child["dir"], "ev", f"{child['prop']}.json"), encoding="utf-8") as fh:
                ev = json.load(fh)
        except Exception as exc:  # noqa
            return {"harness_error": f"no evidence from the child: {exc!r} {stderr[-800:]}"}
        cov = ev["coverage"]
        summary = {"env": " ".join(f"{k}={v}" for k, v in sorted(child["env"].items())) + " aioswitcher-logger=DEBUG",
                   "sample_of_each_subcheck": HOST_VARIANT_SCALE,
                   "evaluations": cov["evaluations"], "distinct_nontrivial": cov["distinct_nontrivial"],
                   "per_subcheck_evaluations": cov["per_subcheck_evaluations"], "inconclusive": cov["inconclusive"],
                   "violations": ev.get("violations", 0), "wall_s": ev["wall_s"]}
        lines = []
        if rc == 1:
            keep = False
            for ln in stdout.splitlines():
                if ln.startswith("VIOLATION "):
                    keep = True
                    lines.append(ln)
                elif keep and ln.startswith("  ") and len(lines) % 4:
                    lines.append(ln)
            if not lines:
                return {"harness_error": f"child exit 1 without VIOLATION line: {stdout[-500:]}"}
        return {"summary": summary, "violation_lines": lines}
    finally:
        for k in ("out", "err"):
            try:
                child[k].close()
            except Exception:
                pass
        shutil.rmtree(child["dir"], ignore_errors=True)


def write_evidence(module, rep, subs, wall, nviol, sub_wall, variant=None):
    samples = []
    for sub, lst in sorted(rep.samples.items()):
        for s in lst[:2]:
            samples.append({"subcheck": sub, "case": s})
    exhaustive = bool(subs) and all(s.exhaustive for s in subs)
    ev = {
        "property_id": module.PROP,
        "tier": rep.tier,
        "seed": rep.seed,
        "level": module.LEVEL,
        "coverage": {
            "evaluations": rep.evaluations,
            "distinct_nontrivial": len(rep.nontrivial),
            "rule": module.RULE,
            "samples": samples[:40],
            "exhaustive": exhaustive,
            "exhaustive_subchecks": sorted(s.name for s in subs if s.exhaustive),
            "per_subcheck_evaluations": dict(sorted(rep.per_sub.items())),
            "class_counts": dict(sorted(rep.labels.items())),
            "excluded_by_signature": dict(sorted(rep.excluded.items())),
            "inconclusive": rep.inconclusive,
            "per_subcheck_wall_s": {k: round(v, 2) for k, v in sorted(sub_wall.items())},
        },
        "assumptions": list(module.ASSUMPTIONS),
        "wall_s": round(wall, 2),
        "violations": nviol,
    }
    if variant and variant.get("summary"):
        # counted apart: the child's cases are not de-duplicated against the ordinary pass
        ev["coverage"]["host_variant_pass"] = variant["summary"]
        ev["coverage"]["rule"] += (" A second pass (coverage.host_variant_pass, counted apart) runs a 30 % sample of every sub-check "
                                   "in a child interpreter with assert statements stripped (PYTHONOPTIMIZE=1) under the C locale "
                                   "without UTF-8 mode and with the library's logger at DEBUG.")
    d = os.environ.get("VERIF_EVIDENCE_DIR") or os.path.join(VERIF_DIR, "evidence")
    os.makedirs(d, exist_ok=True)
    tmp = os.path.join(d, f".{module.PROP}.json.tmp")
    with open(tmp, "w", encoding="utf-8") as fh:
        json.dump(ev, fh, indent=1, sort_keys=True)
        fh.write("\n")
    os.replace(tmp, os.path.join(d, f"{module.PROP}.json"))


def run_replay(module, path):
    with open(path, encoding="utf-8") as fh:
        rec = json.load(fh)
    subs = {s.name: s for s in module.subchecks("quick")}
    sub = subs.get(rec["subcheck"])
    if sub is None:
        raise HarnessError(f"unknown subcheck {rec['subcheck']} in {path}")
    if sub.setup:
        sub.setup()
    rep = Reporter(module.PROP, "quick", 0)
    try:
        _call_body(rep, sub, rec["case"])
    except Inconclusive:
        print("replay inconclusive")
        return 2
    except Violation as v:
        print(f"VIOLATION property={module.PROP} replay={path}")
        print(f"  signature: {v.signature}")
        print(f"  expected:  {canon(v.expected)[:600]}")
        print(f"  observed:  {canon(v.observed)[:600]}")
        return 1
    print(f"replay {path}: property held")
    return 0


MACHINE_SHRINK_BUDGET = 60


def machine_guard(rep, new, sub_name, dead_flag, fn, case_fn, ctl=None):
    """Run one step of a stateful system under the record/ignore protocol.

    fn() performs the step and raises Violation; case_fn() returns the JSON case (whole trace so far).
    dead_flag is a one-element list: once an ignored violation was seen the system state is unknown and the
    rest of the run is skipped.
    """
    if dead_flag[0]:
        return
    if ctl is not None and ctl.get("excl_time", 0.0) > SHRINK_SECONDS:
        dead_flag[0] = True
        return
    t_step = time.time()
    if ctl is not None and (ctl.get("fails", 0) >= MACHINE_SHRINK_BUDGET
                            or (ctl.get("fails", 0) and time.time() - ctl.get("t_first", 0) > SHRINK_SECONDS)):
        # shrink budget used up: later runs do nothing (Hypothesis then reports the best failure found so far;
        # a Flaky complaint about the final replay is handled by the caller because violations were recorded)
        dead_flag[0] = True
        return
    try:
        fn()
    except Inconclusive:
        rep.inconclusive += 1
        dead_flag[0] = True
    except Violation as v:
        if v.case is None:
            v.case = case_fn()
        if v.signature in rep.ignored:
            rep.excluded[v.signature] += 1
            dead_flag[0] = True
            if ctl is not None:
                ctl["excl_time"] = ctl.get("excl_time", 0.0) + 0.2 + time.time() - t_step
            return
        rep.record(sub_name, v)
        new.add(v.signature)
        if ctl is not None:
            ctl.setdefault("t_first", time.time())
            ctl["fails"] = ctl.get("fails", 0) + 1
        raise
    except HarnessError:
        raise
    except Exception as exc:  # noqa
        if type(exc).__module__.startswith("hypothesis"):
            raise
        v = _classify_exception(sub_name, exc, case_fn())
        if v is None:
            raise HarnessError(f"{sub_name}: harness exception {type(exc).__name__}: {exc}\n" + traceback.format_exc()) from exc
        if v.signature in rep.ignored:
            rep.excluded[v.signature] += 1
            dead_flag[0] = True
            return
        rep.record(sub_name, v)
        new.add(v.signature)
        if ctl is not None:
            ctl.setdefault("t_first", time.time())
            ctl["fails"] = ctl.get("fails", 0) + 1
        raise v from exc
