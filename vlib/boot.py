"""Bootstrap: make sure the code under test is imported from the repository working tree.

VERIF_REPO (default /repo) names the tree; its ``src`` directory is put first on
``sys.path`` and the import is verified to have come from there.  Anything missing is a
harness error (exit 2), never a violation.
"""
import os
import sys

VERIF_DIR = os.path.dirname(os.path.dirname(os.path.abspath(__file__)))
REPO = os.path.abspath(os.environ.get("VERIF_REPO", "/repo"))
REPO_SRC = os.path.join(REPO, "src")
GUARD = "AIOSWITCHER_VERIF"


VARIANT = os.environ.get("VERIF_VARIANT", "")
# "hostile host": the same checks in an interpreter that strips assert statements (python -O), runs under the C locale
# without UTF-8 mode (file-system encoding ASCII) and has debug logging switched on for the library's logger.
# Nothing in the 19 statements depends on any of the three.
VARIANT_ENV = {"hostile-host": {"PYTHONOPTIMIZE": "1", "LC_ALL": "C", "LANG": "C", "PYTHONUTF8": "0",
                                "PYTHONCOERCECLOCALE": "0", "PYTHONIOENCODING": "utf-8"}}


def variant_env(name):
    env = dict(os.environ, VERIF_VARIANT=name, PYTHONHASHSEED="0")
    env.update(VARIANT_ENV[name])
    return env


class HarnessError(Exception):
    """Environment / harness problem: reported with exit status 2."""


def boot():
    os.environ.setdefault(GUARD, "1")
    if not os.path.isdir(os.path.join(REPO_SRC, "aioswitcher")):
        raise HarnessError(f"no aioswitcher package under {REPO_SRC}")
    if REPO_SRC in sys.path:
        sys.path.remove(REPO_SRC)
    sys.path.insert(0, REPO_SRC)
    sys.dont_write_bytecode = True
    for mod in [m for m in sys.modules if m == "aioswitcher" or m.startswith("aioswitcher.")]:
        del sys.modules[mod]
    try:
        import aioswitcher  # noqa
    except Exception as exc:  # pragma: no cover
        raise HarnessError(f"cannot import aioswitcher from {REPO_SRC}: {exc!r}")
    got = os.path.realpath(os.path.dirname(aioswitcher.__file__))
    want = os.path.realpath(os.path.join(REPO_SRC, "aioswitcher"))
    if got != want:
        raise HarnessError(f"aioswitcher imported from {got}, expected {want}")
    # every submodule is imported now, so that confine_clocks() sees all of them
    import importlib
    import pkgutil
    for info in pkgutil.walk_packages(aioswitcher.__path__, "aioswitcher."):
        try:
            importlib.import_module(info.name)
        except Exception as exc:
            raise HarnessError(f"cannot import {info.name} from {REPO_SRC}: {exc!r}")
    confine_clocks()
    import logging
    lg = logging.getLogger("aioswitcher")
    lg.addHandler(logging.NullHandler())
    lg.propagate = False
    if VARIANT == "hostile-host":
        # somebody is troubleshooting: debug logging is on, so every `if logger.isEnabledFor(DEBUG)` branch and every
        # lazily formatted debug record is live
        class _Sink(logging.Handler):
            def emit(self, record):
                try:
                    record.getMessage()
                except Exception:
                    pass
        lg.addHandler(_Sink(level=logging.DEBUG))
        lg.setLevel(logging.DEBUG)
    try:
        import hypothesis  # noqa
        import time_machine  # noqa
    except Exception as exc:
        raise HarnessError(f"missing dependency: {exc!r} (run MANIFEST.setup_cmd)")
    return aioswitcher


VOFFSET = [0.0]       # seconds the harness-owned clocks are ahead of the real monotonic clock (only ever grows)


def confine_clocks():
    """Inside the aioswitcher modules (and only there) time.monotonic / time.perf_counter (+ _ns) read the harness-owned
    clock: real value + VOFFSET, the same offset the event loops of the harness use (fake.net).  Done by rebinding, in every
    aioswitcher module, names that refer to the `time` module or to those functions; Hypothesis, asyncio internals and the
    harness keep the real ones.  time.time / localtime / ... are time_machine's business and pass through untouched."""
    import time as rt
    import types

    def shifted(fn, ns=False):
        if ns:
            return lambda: fn() + int(VOFFSET[0] * 1_000_000_000)
        return lambda: fn() + VOFFSET[0]
    repl = {rt.monotonic: shifted(rt.monotonic), rt.perf_counter: shifted(rt.perf_counter),
            rt.monotonic_ns: shifted(rt.monotonic_ns, True), rt.perf_counter_ns: shifted(rt.perf_counter_ns, True)}

    class _Time(types.ModuleType):
        def __getattr__(self, name):
            return getattr(rt, name)
    vt = _Time("time")
    vt.__dict__.update({"monotonic": repl[rt.monotonic], "perf_counter": repl[rt.perf_counter],
                        "monotonic_ns": repl[rt.monotonic_ns], "perf_counter_ns": repl[rt.perf_counter_ns]})
    for name, mod in list(sys.modules.items()):
        if not (name == "aioswitcher" or name.startswith("aioswitcher.")) or mod is None:
            continue
        for attr, val in list(vars(mod).items()):
            try:
                if val is rt:
                    setattr(mod, attr, vt)
                elif val in repl:
                    setattr(mod, attr, repl[val])
            except TypeError:
                continue


def in_repo(filename: str) -> bool:
    try:
        return os.path.realpath(filename).startswith(os.path.realpath(REPO_SRC) + os.sep)
    except Exception:
        return False
