"""Bootstrap: make sure the code under test is imported from the repository working tree.

VERIF_REPO (default /repo) names the tree; its ``src`` directory is put first on
``sys.path`` and the import is verified to have come from there.  Anything missing is a
harness error (exit 2), never a violation.
"""
import os
import sys

VERIF_DIR = os.path.dirname(os.path.dirname(os.path.abspath(__file__)))
REPO = os.path.abspath(os.environ.get("VERIF_REPO", "/repo"))
REPO_SRC = os.path.join(REPO, "src")
GUARD = "AIOSWITCHER_VERIF"


VARIANT = os.environ.get("VERIF_VARIANT", "")
# "hostile host": the same checks in an interpreter that strips assert statements (python -O), runs under the C locale
# without UTF-8 mode (file-system encoding ASCII) and has debug logging switched on for the library's logger.
# Nothing in the 19 statements depends on any of the three.
VARIANT_ENV = {"hostile-host": {"PYTHONOPTIMIZE": "1", "LC_ALL": "C", "LANG": "C", "PYTHONUTF8": "0",
                                "PYTHONCOERCECLOCALE": "0", "PYTHONIOENCODING": "utf-8"}}


def variant_env(name):
    env = dict(os.environ, VERIF_VARIANT=name, PYTHONHASHSEED="0")
    env.update(VARIANT_ENV[name])
    return env


class HarnessError(Exception):
    """Environment / harness problem: reported with exit status 2."""


def boot():
    os.environ.setdefault(GUARD, "1")
    if not os.path.isdir(os.path.join(REPO_SRC, "aioswitcher")):
        raise HarnessError(f"no aioswitcher package under {REPO_SRC}")
    if REPO_SRC in sys.path:
        sys.path.remove(REPO_SRC)
    sys.path.insert(0, REPO_SRC)
    sys.dont_write_bytecode = True
    for mod in [m for m in sys.modules if m == "aioswitcher" or m.startswith("aioswitcher.")]:
        del sys.modules[mod]
    try:
        import aioswitcher  # noqa
    except Exception as exc:  # pragma: no cover
        raise HarnessError(f"cannot import aioswitcher from {REPO_SRC}: {exc!r}")
    got = os.path.realpath(os.path.dirname(aioswitcher.__file__))
    want = os.path.realpath(os.path.join(REPO_SRC, "aioswitcher"))
    if got != want:
        raise HarnessError(f"aioswitcher imported from {got}, expected {want}")
    import logging
    lg = logging.getLogger("aioswitcher")
    lg.addHandler(logging.NullHandler())
    lg.propagate = False
    if VARIANT == "hostile-host":
        # somebody is troubleshooting: debug logging is on, so every `if logger.isEnabledFor(DEBUG)` branch and every
        # lazily formatted debug record is live
        class _Sink(logging.Handler):
            def emit(self, record):
                try:
                    record.getMessage()
                except Exception:
                    pass
        lg.addHandler(_Sink(level=logging.DEBUG))
        lg.setLevel(logging.DEBUG)
    try:
        import hypothesis  # noqa
        import time_machine  # noqa
    except Exception as exc:
        raise HarnessError(f"missing dependency: {exc!r} (run MANIFEST.setup_cmd)")
    return aioswitcher


def in_repo(filename: str) -> bool:
    try:
        return os.path.realpath(filename).startswith(os.path.realpath(REPO_SRC) + os.sep)
    except Exception:
        return False
