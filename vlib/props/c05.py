"""C05 - a status broadcast is decoded into exactly the device the sender described."""
from hypothesis import strategies as st

from .. import gen, vclock
from ..engine import Sub, Violation
from ..fake import net, udptx
from ..ref import broadcast as refb

PROP = "C05"
LEVEL = "exploration"
DESIGN_REF = "DESIGN.md section 3, C05"
TECHNIQUE = "round trip against an independent reference encoder of the three broadcast layouts (pinned to the shipped captures, incl. the MAC that matches the name printed on the device) through a running SwitcherBridge fed over loopback UDP; field-by-field comparison of the delivered device objects"
LEVEL_TEXT = ("For each of the 9 device types, batches of datagrams are built from Hypothesis-generated field values over the stated "
              "domains (every IP/MAC byte value, UTF-8 names of 1..32 bytes, power 0..65535, times 0..86399, positions 0..100, all "
              "enumerants, temperatures 0..6553.5, 8-character remote ids; OFF frames deliberately carry non-zero power and "
              "remaining time) and sent to a real bridge; exactly one object of the right class with exactly those values must "
              "be delivered per datagram. Sampling, no proof.")
RULE = ("case = device type + list of field dictionaries (one datagram each); non-trivial = the 6 MAC bytes and 4 IP bytes are "
        "pairwise distinct and numeric fields are non-zero; distinct by datagram fields."
        ' A third of the batches run under a host zone other than UTC; names include non-NFC-stable forms, a leading U+FEFF and leading/trailing blanks. sweep-soak: 66 000 datagrams through one bridge port in one process, every other one a well-formed broadcast (thorough 140 000, all well-formed) whose numeric fields walk through their whole ranges (power and temperature 0..65535, times 0..86399, key, target, position): each arrives exactly once and every field is compared.')
ASSUMPTIONS = [
    "broadcast layout of DESIGN appendix A.3 pinned by the 4 device captures + 12 on/off captures",
    "last_data_update, the on/off state of shutters and values outside the stated domains are not asserted",
    "loopback UDP delivers in order; kernel drops (read from /proc/net/udp) make a case inconclusive",
]

FAN_NAMES = ["AUTO", "LOW", "MEDIUM", "HIGH"]
MODE_NAMES = {1: "AUTO", 2: "DRY", 3: "FAN", 4: "COOL", 5: "HEAT"}
DIR_NAMES = {"stop": "SHUTTER_STOP", "up": "SHUTTER_UP", "down": "SHUTTER_DOWN"}


def iso(s):
    return f"{s // 3600:02d}:{s // 60 % 60:02d}:{s % 60:02d}"


def name_of(x):
    return getattr(x, "name", repr(x))


def judge(f, dev, case):
    code = f["model"]
    fam, cat, _ = refb.MODELS[code]
    sig = f"C05/{cat.lower()}"

    def expect(field, want, got):
        if want != got:
            raise Violation(f"{sig}/{field}", case, {field: want, "datagram": f}, {field: got})

    expect("class", refb.CLASS_OF[cat], type(dev).__name__)
    expect("device_type", fam, name_of(dev.device_type))
    expect("device_id", f["device_id"], dev.device_id)
    expect("device_key", f"{f['key']:02x}", str(dev.device_key).lower())
    expect("ip_address", ".".join(map(str, f["ip"])), dev.ip_address)
    expect("mac_address", ":".join(f"{b:02X}" for b in f["mac"]), str(dev.mac_address).upper())
    expect("name", f["name"], dev.name)
    if cat in ("WATER_HEATER", "POWER_PLUG"):
        on = f["on"]
        expect("device_state", "ON" if on else "OFF", name_of(dev.device_state))
        expect("power_consumption" + ("" if on else "/off-not-zero"), f["power"] if on else 0, dev.power_consumption)
        amps = dev.electric_current
        want = f["power"] / 220 if on else 0.0
        if not isinstance(amps, float) or abs(amps - want) > 0.05 + 1e-9 or abs(amps * 10 - round(amps * 10)) > 1e-6:
            raise Violation(f"{sig}/electric_current" + ("" if on else "/off-not-zero"), case, round(want, 1), amps)
        if cat == "WATER_HEATER":
            expect("remaining_time" + ("" if on else "/off-not-zero"), iso(f["remaining"]) if on else "00:00:00", dev.remaining_time)
            expect("auto_shutdown", iso(f["auto_shutdown"]), dev.auto_shutdown)
    elif cat == "SHUTTER":
        expect("position", f["position"], dev.position)
        expect("direction", DIR_NAMES[f["direction"]], name_of(dev.direction))
    else:
        expect("device_state", "ON" if f["on"] else "OFF", name_of(dev.device_state))
        expect("mode", MODE_NAMES[f["mode"]], name_of(dev.mode))
        expect("target_temperature", f["target"], dev.target_temperature)
        expect("fan_level", FAN_NAMES[f["fan"]], name_of(dev.fan_level))
        expect("swing", "ON" if f["swing"] else "OFF", name_of(dev.swing))
        expect("remote_id", f["remote_id"], dev.remote_id)
        t = dev.temperature
        if not isinstance(t, (int, float)) or abs(t - f["temp_tenths"] / 10) > 1e-9:
            raise Violation(f"{sig}/temperature", case, f["temp_tenths"] / 10, t)


def nontrivial(f):
    if len(set(f["mac"])) != 6 or len(set(f["ip"])) != 4:
        return False
    cat = refb.MODELS[f["model"]][1]
    if cat in ("WATER_HEATER", "POWER_PLUG"):
        return f["power"] > 0 and f.get("remaining", 1) > 0
    if cat == "SHUTTER":
        return f["position"] > 0
    return f["temp_tenths"] > 0 and f["target"] > 0


CALLBACK_FORMS = ["bound-method", "function", "partial", "unreferenced-owner", "falsy-callable"]


async def run_batch(rep, case, sub):
    rig = udptx.Rig(1)
    # the user's callback comes in every shape a callable has (C07 has the details)
    await rig.start(CALLBACK_FORMS[case.get("salt", 2) % len(CALLBACK_FORMS)])
    try:
        port = rig.ports[0]
        dead = None
        try:
            for f in case["datagrams"]:
                await rig.send(port, refb.encode(f, salt=case.get("salt", 2)))
        except udptx.DeliveryStopped as exc:
            dead = exc.ports
        if dead is None:
            dead = await rig.barrier()
    finally:
        await rig.stop()
    fam = refb.MODELS[case["datagrams"][0]["model"]][0] if case["datagrams"] else "none"
    for f in case["datagrams"]:
        rep.tick(sub, key=f, nontrivial=nontrivial(f), sample={"datagrams": [f]},
                 labels=(f"type={refb.MODELS[f['model']][0]}", "on" if f.get("on", True) else "off"))
    if dead:
        raise Violation(f"C05/no-delivery-after-batch/{fam}", case, "sentinel delivered", {"loop_errors": rig.loop_errors[:3]})
    if len(rig.callbacks) != len(case["datagrams"]):
        raise Violation(f"C05/callback-count/{fam}", case, len(case["datagrams"]),
                        {"callbacks": len(rig.callbacks), "loop_errors": rig.loop_errors[:3]})
    for f, dev in zip(case["datagrams"], rig.callbacks):
        judge(f, dev, {"datagrams": [f], "salt": case.get("salt", 2)})


def make_body(sub):
    def body(rep, case):
        zone = case.get("zone", "UTC")
        if zone != "UTC":
            # the decoded device must not depend on where the host is
            rep.label("host-zone-not-utc")
            with vclock.frozen(zone, 2024, 7, 1, 12, 0, 0):
                net.run(run_batch(rep, case, sub), timeout=120)
        else:
            net.run(run_batch(rep, case, sub), timeout=120)
    return body


# -- strategies -------------------------------------------------------------------------------------
def distinct_bytes(n):
    return st.lists(st.integers(0, 255), min_size=n, max_size=n, unique=True)


ipv4 = st.one_of(distinct_bytes(4), st.lists(st.integers(0, 255), min_size=4, max_size=4),
                 st.sampled_from([[0, 0, 0, 0], [255, 255, 255, 255], [192, 168, 1, 33], [10, 0, 0, 1]]))
mac = st.one_of(distinct_bytes(6), distinct_bytes(6), st.lists(st.integers(0, 255), min_size=6, max_size=6),
                st.sampled_from([[0] * 6, [255] * 6]))


def names_bytes():
    return gen.names(1, 32).filter(lambda s: 1 <= len(s.encode("utf-8")) <= 32 and "\x00" not in s) | st.sampled_from(
        ["x", "y" * 32, "בית", "é" * 16, "😀" * 8, "Switcher Boiler CF8B", "\ufeffBoiler", "\ufeff", "Cafe\u0301", " lead", "trail "])


secs = st.one_of(st.integers(0, 86399), st.sampled_from([0, 1, 59, 60, 3599, 3600, 65535, 65536, 86399]))
power = st.one_of(st.integers(0, 65535), st.sampled_from([0, 1, 110, 219, 220, 255, 256, 2600, 65535]))
REMOTE_ALPHA = "ABCDEFGHIJKLMNOPQRSTUVWXYZ0123456789abcdefghijklmnopqrstuvwxyz"


def fields_for(code):
    cat = refb.MODELS[code][1]
    common = {"model": st.just(code), "device_id": st.binary(min_size=3, max_size=3).map(bytes.hex), "key": st.integers(0, 255),
              "name": names_bytes(), "ip": ipv4, "mac": mac}
    if cat in ("WATER_HEATER", "POWER_PLUG"):
        common.update({"on": st.booleans(), "power": power, "remaining": secs, "auto_shutdown": secs})
    elif cat == "SHUTTER":
        common.update({"position": st.integers(0, 100), "direction": st.sampled_from(["stop", "up", "down"])})
    else:
        common.update({"on": st.booleans(), "mode": st.integers(1, 5), "target": st.integers(0, 255), "fan": st.integers(0, 3),
                       "swing": st.integers(0, 1), "temp_tenths": st.one_of(st.integers(0, 65535), st.sampled_from([0, 255, 256, 281, 65535])),
                       "remote_id": st.text(REMOTE_ALPHA, min_size=8, max_size=8)})
    return st.fixed_dictionaries(common)


def strat(code):
    return lambda: st.builds(lambda ds, salt, z: {"datagrams": ds, "salt": salt, "zone": z},
                             st.lists(fields_for(code), min_size=1, max_size=12), st.integers(1, 200),
                             st.sampled_from(["UTC", "UTC", "UTC", "Asia/Jerusalem", "America/New_York", "Asia/Kathmandu"]))


def sweep_fields(i, stride):
    """The i-th broadcast of the sweep: families in turn, every numeric field walking through its whole range."""
    code = list(refb.MODELS)[i % len(refb.MODELS)]
    cat = refb.MODELS[code][1]
    k = i * stride
    f = {"model": code, "device_id": f"{(i * 2654435761) % 0xFFFFFF:06x}", "key": k % 256, "name": f"dev {i}",
         "ip": [10, k % 256, (k >> 8) % 256, (k * 7) % 256], "mac": [(k + j * 41) % 256 for j in range(6)]}
    if cat in ("WATER_HEATER", "POWER_PLUG"):
        f.update(on=i % 5 != 0, power=k % 65536, remaining=(k * 5) % 86400, auto_shutdown=(k * 11 + 3) % 86400)
    elif cat == "SHUTTER":
        f.update(position=k % 101, direction=["stop", "up", "down"][i % 3])
    else:
        f.update(on=i % 5 != 0, mode=1 + i % 5, target=k % 256, fan=i % 4, swing=i % 2, temp_tenths=k % 65536,
                 remote_id="ELEC%04d" % (i % 10000))
    return f


def body_sweep(rep, case):
    """Tens of thousands of broadcasts through ONE bridge port in one process, the numeric fields walking through their whole
    ranges: each one arrives exactly once and decodes exactly (a parser has no business singling out a value, and a bridge
    none in counting its datagrams)."""
    async def go():
        rig = udptx.Rig(1)
        rig.quiet_windows = True
        await rig.start()
        try:
            port = rig.ports[0]
            junk = b"\x00" * 165
            sent = []
            try:
                for i in range(case["n"]):
                    if case["valid_every"] > 1 and i % case["valid_every"]:
                        await rig.send(port, junk)
                        continue
                    f = sweep_fields(i // case["valid_every"], case["stride"])
                    sent.append(f)
                    await rig.send(port, refb.encode(f, salt=2))
                    if len(sent) % 4096 == 0 and await rig.barrier():
                        return sent, list(rig.callbacks), [port], list(rig.loop_errors)
            except udptx.DeliveryStopped:
                return sent, list(rig.callbacks), [port], list(rig.loop_errors)
            dead = await rig.barrier()
            return sent, list(rig.callbacks), dead, list(rig.loop_errors)
        finally:
            await rig.stop()
    sent, got, dead, loop_errors = net.run(go(), timeout=1800)
    rep.tick("sweep-soak", key=case, nontrivial=True, sample=dict(case, first=sent[1] if len(sent) > 1 else None), n=len(sent), labels=("soak",))
    if dead:
        raise Violation("C05/delivery-stops/soak", case, "closing sentinel delivered", {"delivered": len(got), "loop_errors": loop_errors[:3]})
    if len(got) != len(sent):
        raise Violation("C05/callback-count/soak", case, len(sent), {"callbacks": len(got), "loop_errors": loop_errors[:3]})
    for f, dev in zip(sent, got):
        judge(f, dev, {"datagrams": [f], "salt": 2})


def subchecks(tier):
    big = tier == "thorough"
    subs = []
    for code, (fam, cat, proto) in refb.MODELS.items():
        subs.append(Sub(f"type={fam}", make_body(f"type={fam}"), strategy=strat(code), n=12_000 if big else 500,
                        shards=4 if big else 1, shrink_budget=120))
    subs.append(Sub("sweep-soak", body_sweep, shards=2, exhaustive=False,
                    cases=lambda: ([{"n": 66_000, "valid_every": 2, "stride": 2}] if not big else
                                   [{"n": 140_000, "valid_every": 1, "stride": 1}, {"n": 70_000, "valid_every": 3, "stride": 3}])))
    return subs
