"""C17 - the bridge listens exactly while running and leaves nothing behind."""
import asyncio
import os
import socket

from hypothesis import strategies as st
from hypothesis.stateful import RuleBasedStateMachine, initialize, precondition, rule

from ..engine import Sub, Violation, machine_guard
from ..fake import net, udptx
from ..ref import broadcast as refb

PROP = "C17"
LEVEL = "exploration"
DESIGN_REF = "DESIGN.md section 3, C17"
TECHNIQUE = "Hypothesis rule-based state machine over {start, stop, enter/leave async context, send broadcast to port i, occupy/release port i with a foreign socket, send-then-stop, cycle} on a real SwitcherBridge with 1..4 private UDP ports; model = running flag + occupied set; after every step is_running, the bindability of every configured port (probe socket) and the callback count are compared with the model"
LEVEL_TEXT = ("Sequences of up to 40 actions drive one bridge object through starts, stops, context entries, failed starts (a "
              "configured port held by a foreign socket), restarts and traffic. After each action: is_running equals the model; each "
              "configured port is bindable by a probe socket iff the model says nothing of ours listens there; a broadcast sent while "
              "running yields exactly one callback; datagrams queued immediately before stop() never produce a callback after it "
              "returned. 'Never' is checked up to the point where the port is provably released. Sequences are sampled and shrunk.")
RULE = ("case = number of ports + step list; non-trivial = contains a restart, a failed start on a port index > 0, or a send around "
        "a stop; distinct by (ports, steps)."
        ' start is also called on a running bridge (start_while_running). The ports are handed to the bridge as a list or a tuple. Further actions: idle (1 s .. 25 h of event-loop time under the harness-owned loop clock), new_loop (the event loop is closed and a new one made while the bridge is stopped; the bridge object is kept), a second bridge object started on the same ports (rival_start), start with the file-descriptor limit lowered so that a later port fails with EMFILE (start_fd_exhausted), 0..4 loop turns between queued datagrams and stop(), context exit with an exception (RuntimeError, OSError, TimeoutError, and the BaseExceptions CancelledError and KeyboardInterrupt).')
ASSUMPTIONS = [
    "start() on a running bridge may either fail with OSError and leave nothing listening (what the code does today) or be a no-op; the model follows the observed outcome and the invariants (is_running <=> all ports bound, delivery) are checked afterwards",
    "a port is 'released' when a UDP socket without SO_REUSEADDR can bind 0.0.0.0:port after two event-loop cycles",
    "private port block per process (flock allocator), so EADDRINUSE can only come from this process",
]


def bindable(port):
    s = socket.socket(socket.AF_INET, socket.SOCK_DGRAM)
    try:
        s.bind(("0.0.0.0", port))
        return True
    except OSError:
        return False
    finally:
        s.close()


class BridgeSys:
    def __init__(self, nports, container="list"):
        self.nports = nports
        self.container = container
        self.rig = udptx.Rig(nports)
        self.ports = self.rig.ports
        self.bridge = self.rig.make_bridge(container=container)
        self.running = False
        self.occupied = {}
        self.trace = []
        self.failed_start = False
        self.msgno = 0
        net.run(self._observe())

    async def _observe(self):
        self.rig.observe()

    def case(self):
        return dict({"ports": self.nports, "steps": list(self.trace)}, **({"container": self.container} if self.container != "list" else {}))

    def fail(self, sig, expected, observed):
        raise Violation(f"C17/{sig}", self.case(), expected, observed)

    def datagram(self):
        self.msgno += 1
        return refb.encode(dict(model="01a8", device_id=f"{self.msgno:06x}", key=1, name=f"m{self.msgno}", ip=[10, 0, 0, 1],
                                mac=[2, 0, 0, 0, 0, 2], on=True, power=100, remaining=0, auto_shutdown=0))

    def apply(self, step):
        self.trace.append(step)
        try:
            if step["action"] == "new_loop":
                # the program's event loop is closed and another one made (asyncio.run() twice); the stopped bridge object
                # is kept and must be startable on the new loop
                async def leave_old():
                    self.rig.unobserve()
                net.run(leave_old())
                net.new_loop()
                net.run(self._observe())
                net.run(self._invariants(step), timeout=60)
                return
            net.run(self._apply(step), timeout=60 + 2 * step.get("secs", 0))
            net.run(self._invariants(step), timeout=60)
        except asyncio.TimeoutError:
            self.fail(f"step-hangs/{step['action']}", "step completes", "no completion within 60 s")

    async def _start(self, how):
        blocked = sorted(i for i in self.occupied)
        try:
            if how == "enter":
                got = await self.bridge.__aenter__()
                if got is not self.bridge:
                    self.fail("context-returns-other-object", "the bridge", repr(got))
            else:
                await self.bridge.start()
            outcome = "started"
        except OSError as exc:
            outcome = "OSError"
        except Exception as exc:  # noqa
            outcome = f"{type(exc).__name__}: {exc}"
        self.failed_start = bool(blocked)
        if blocked:
            if outcome != "OSError":
                self.fail(f"start-with-port-in-use/{how}", "OSError", outcome)
            self.running = False
            self.last_failed_start = blocked
        else:
            if outcome != "started":
                self.fail(f"start-fails/{how}/" + ("restart" if self._count("start", "enter") > 1 else "first"), "started", outcome)
            self.running = True

    def _count(self, *actions):
        return sum(1 for s in self.trace if s["action"] in actions)

    async def _apply(self, step):
        a = step["action"]
        if a in ("start", "enter"):
            await self._start(a)
        elif a in ("stop", "leave"):
            try:
                if a == "leave":
                    if step.get("exc"):
                        err = {"RuntimeError": RuntimeError, "OSError": OSError, "CancelledError": asyncio.CancelledError,
                               "TimeoutError": TimeoutError, "KeyboardInterrupt": KeyboardInterrupt}[step["exc"]]("body failed")
                        swallowed = await self.bridge.__aexit__(type(err), err, None)
                        if swallowed:
                            self.fail("context-swallows-body-exception", "falsy __aexit__ result", repr(swallowed))
                    else:
                        await self.bridge.__aexit__(None, None, None)
                else:
                    await self.bridge.stop()
            except Exception as exc:
                self.fail(f"{a}-raises/" + ("running" if self.running else "not-running"), "no exception", f"{type(exc).__name__}: {exc}")
            self.running = False
            self.failed_start = False
        elif a == "send":
            port = self.ports[step["port"] % self.nports]
            before = self.rig.invocations
            self.rig.tx.sendto(self.datagram(), ("127.0.0.1", port))
            if self.running:
                dead = await self.rig.barrier([port])
                if dead:
                    self.fail("running-bridge-does-not-deliver", "callback", {"loop_errors": self.rig.loop_errors[:2]})
                if self.rig.invocations != before + 1:
                    self.fail("callbacks-per-broadcast-while-running", 1, self.rig.invocations - before)
            else:
                for _ in range(5):
                    await asyncio.sleep(0)
                if self.rig.invocations != before:
                    self.fail("callback-while-not-running/" + self._why_not_running(), 0, self.rig.invocations - before)
        elif a == "send_then_stop":
            # datagrams queued right before stop() (no loop turn in between) must never reach the callback afterwards
            before = self.rig.invocations
            for i in range(step.get("n", 3)):
                self.rig.tx.sendto(self.datagram(), ("127.0.0.1", self.ports[(step["port"] + i) % self.nports]))
            for _ in range(step.get("cycles", 0)):      # 0..4 loop turns between the sends and stop(): some datagrams are
                await asyncio.sleep(0)                  # then delivered before stop - fine - but none after it returned
            try:
                await self.bridge.stop()
            except Exception as exc:
                self.fail("stop-raises/running", "no exception", f"{type(exc).__name__}: {exc}")
            after_stop = self.rig.invocations
            self.running = False
            self.rig.tx.sendto(self.datagram(), ("127.0.0.1", self.ports[step["port"] % self.nports]))
            for _ in range(6):
                await asyncio.sleep(0)
            if self.rig.invocations != after_stop:
                self.fail("callback-after-stop-returned", 0, self.rig.invocations - after_stop)
        elif a == "start_fd_exhausted":
            # start() failing on a later port for another reason than "address in use": the process runs out of file
            # descriptors after `allow` sockets.  Whatever the errno, the error must surface and nothing may stay bound.
            import resource
            allow = step["allow"] % self.nports
            soft, hard = resource.getrlimit(resource.RLIMIT_NOFILE)
            nfds = len(os.listdir("/proc/self/fd")) - 1
            fillers = []
            try:
                resource.setrlimit(resource.RLIMIT_NOFILE, (nfds + allow + 8, hard))
                while True:                     # use up the slack so that exactly `allow` descriptors remain
                    try:
                        fillers.append(os.open("/dev/null", os.O_RDONLY))
                    except OSError:
                        break
                for _ in range(allow):
                    if fillers:
                        os.close(fillers.pop())
                try:
                    await self.bridge.start()
                    outcome = "started"
                except OSError as exc:
                    outcome = "OSError"
                except Exception as exc:  # noqa
                    outcome = f"{type(exc).__name__}: {exc}"
            finally:
                for fd in fillers:
                    os.close(fd)
                resource.setrlimit(resource.RLIMIT_NOFILE, (soft, hard))
            self.failed_start = True
            if outcome == "started":
                # the loop needed fewer descriptors than assumed: a successful start is fine, the model follows
                self.running = not self.occupied
                if self.occupied:
                    self.fail("start-with-port-in-use/fd-limit", "OSError", outcome)
            elif outcome != "OSError":
                self.fail("start-failure-not-OSError/fd-limit", "OSError", outcome)
            else:
                self.running = False
        elif a == "rival_start":
            # another SwitcherBridge object configured with the same ports: while this one runs its start must fail with
            # OSError and must not disturb this bridge (the invariants below re-check is_running, the ports and delivery)
            from aioswitcher.bridge import SwitcherBridge
            rival_calls = []
            rival = SwitcherBridge(rival_calls.append, list(self.ports))
            try:
                await rival.start()
                outcome = "started"
            except OSError:
                outcome = "OSError"
            except Exception as exc:  # noqa
                outcome = f"{type(exc).__name__}: {exc}"
            finally:
                if outcome == "started":
                    await rival.stop()
            if self.running or self.occupied:
                if outcome != "OSError":
                    self.fail("second-bridge-starts-on-ports-in-use", "OSError", outcome)
                if getattr(rival, "is_running", None) is not False:
                    self.fail("second-bridge/is_running-after-failed-start", False, rival.is_running)
            elif outcome != "started":
                self.fail("second-bridge-cannot-start-on-free-ports", "started", outcome)
            if self.running:
                before = self.rig.invocations
                for port in self.ports:
                    self.rig.tx.sendto(self.datagram(), ("127.0.0.1", port))
                dead = await self.rig.barrier()
                if dead or self.rig.invocations != before + len(self.ports):
                    self.fail("bridge-disturbed-by-another-instance", {"callbacks": len(self.ports)},
                              {"callbacks": self.rig.invocations - before, "dead_ports": len(dead)})
        elif a == "start_while_running":
            # "any sequence of start and stop calls" includes start on a running bridge.  Two behaviours are consistent with
            # the statement: the call fails (its own ports are in use), the error is raised and nothing is left listening - or
            # it is a no-op and the bridge goes on running.  The model follows whichever happened; the invariants do the rest.
            try:
                await self.bridge.start()
                outcome = "started"
            except OSError:
                outcome = "OSError"
            except Exception as exc:  # noqa
                outcome = f"{type(exc).__name__}: {exc}"
            if outcome == "OSError":
                self.running = False
                self.failed_start = True
            elif outcome != "started":
                self.fail("start-while-running-raises-other-than-OSError", "OSError or a no-op", outcome)
        elif a == "occupy":
            i = step["port"] % self.nports
            if i not in self.occupied:
                s = socket.socket(socket.AF_INET, socket.SOCK_DGRAM)
                try:
                    s.bind(("0.0.0.0", self.ports[i]))
                except OSError as exc:
                    s.close()
                    self.fail("port-not-released/cannot-occupy", "bindable", str(exc))
                self.occupied[i] = s
        elif a == "release":
            i = step["port"] % self.nports
            s = self.occupied.pop(i, None)
            if s is not None:
                s.close()
        elif a == "cycle":
            for _ in range(step.get("n", 2)):
                await asyncio.sleep(0)
        elif a == "idle":
            await net.idle(step["secs"])         # event-loop time passes under the harness-owned clock
        else:
            raise KeyError(a)

    def _why_not_running(self):
        acts = [s["action"] for s in self.trace[:-1]]
        last = next((x for x in reversed(acts) if x in ("start", "enter", "stop", "leave", "send_then_stop", "start_while_running")), "never-started")
        return "after-failed-start" if last in ("start", "enter", "start_while_running") else f"after-{last}"

    async def _invariants(self, step):
        got = self.bridge.is_running
        if got is not self.running:
            self.fail(f"is_running/after-{step['action']}" + ("/port-in-use" if self.occupied and step["action"] in ("start", "enter") else ""),
                      self.running, got)
        await asyncio.sleep(0)
        await asyncio.sleep(0)
        for i, p in enumerate(self.ports):
            want_bindable = not self.running and i not in self.occupied
            if bindable(p) != want_bindable:
                if want_bindable:
                    self.fail(f"port-left-listening/after-{step['action']}" + ("/failed-start" if self.failed_start else ""),
                              {"port_index": i, "bindable": True}, {"port_index": i, "bindable": False})
                elif self.running:
                    self.fail(f"running-but-port-not-bound/after-{step['action']}", {"port_index": i, "bound": True},
                              {"port_index": i, "bound": False})
        if self.rig.loop_errors:
            self.fail("loop-exception", "none", self.rig.loop_errors[:2])

    def close(self):
        async def fin():
            try:
                await self.bridge.stop()
            except Exception:
                pass
            # defensive: close anything a broken start()/stop() left behind so ports are free for the next run.  No
            # private name is assumed: whatever the bridge object holds that looks like an asyncio transport is closed.
            for tr in udptx.transports_held_by(self.bridge):
                try:
                    tr.close()
                except Exception:
                    pass
            self.rig.unobserve()
            for _ in range(3):
                await asyncio.sleep(0)
        net.run(fin())
        for s in self.occupied.values():
            s.close()
        self.occupied.clear()
        self.rig.tx.close()


def nontrivial(steps):
    acts = [s["action"] for s in steps]
    starts = [i for i, a in enumerate(acts) if a in ("start", "enter", "start_fd_exhausted")]
    restart = len(starts) >= 2
    failed_late = False
    occ = set()
    for s in steps:
        if s["action"] == "occupy":
            occ.add(s["port"])
        elif s["action"] == "release":
            occ.discard(s["port"])
        elif s["action"] in ("start", "enter") and any(p > 0 for p in occ):
            failed_late = True
    return restart or failed_late or "send_then_stop" in acts


def body(rep, case):
    sysm = BridgeSys(case["ports"], case.get("container", "list"))
    try:
        rep.tick(f"ports={case['ports']}", key=case, nontrivial=nontrivial(case["steps"]), sample=case)
        for step in case["steps"]:
            sysm.apply(step)
    finally:
        sysm.close()


def machine_factory(nports):
    sub_name = f"ports={nports}"

    def factory(rep, new):
        ctl = {"fails": 0}

        class Machine(RuleBasedStateMachine):
            def __init__(self):
                super().__init__()
                self.sys = None
                self.dead = [False]

            def do(self, step):
                machine_guard(rep, new, sub_name, self.dead, lambda: self.sys.apply(step), self.sys.case, ctl)

            @initialize(begin=st.sampled_from(["nothing", "start", "start", "enter", "occupy-then-start"]), port=st.integers(0, nports - 1),
                        container=st.sampled_from(["list", "list", "tuple"]))
            def begin(self, begin, port, container):
                self.sys = BridgeSys(nports, container)
                # most histories should get the bridge going early, some with a port already taken
                if begin == "occupy-then-start":
                    self.do({"action": "occupy", "port": port})
                    self.do({"action": "start"})
                elif begin != "nothing":
                    self.do({"action": begin})

            @precondition(lambda self: not self.sys.running)
            @rule(how=st.sampled_from(["start", "start", "enter"]))
            def start(self, how):
                self.do({"action": how})

            @rule(how=st.sampled_from(["stop", "stop", "leave", "leave-exc-RuntimeError", "leave-exc-OSError",
                                       "leave-exc-CancelledError", "leave-exc-TimeoutError", "leave-exc-KeyboardInterrupt"]))
            def stop(self, how):
                if how.startswith("leave-exc-"):
                    self.do({"action": "leave", "exc": how[10:]})
                else:
                    self.do({"action": how})

            @rule(port=st.integers(0, nports - 1))
            def send(self, port):
                self.do({"action": "send", "port": port})

            @precondition(lambda self: self.sys.running)
            @rule(port=st.integers(0, nports - 1), n=st.integers(1, 4), cycles=st.integers(0, 4))
            def send_then_stop(self, port, n, cycles):
                self.do({"action": "send_then_stop", "port": port, "n": n, "cycles": cycles})

            @precondition(lambda self: self.sys.running)
            @rule()
            def start_while_running(self):
                self.do({"action": "start_while_running"})

            @precondition(lambda self: not self.sys.running and nports > 1)
            @rule(allow=st.integers(1, max(1, nports - 1)))
            def start_fd_exhausted(self, allow):
                self.do({"action": "start_fd_exhausted", "allow": allow})

            @precondition(lambda self: not self.sys.running)
            @rule(port=st.integers(0, nports - 1))
            def occupy(self, port):
                self.do({"action": "occupy", "port": port})

            @rule(port=st.integers(0, nports - 1))
            def release(self, port):
                self.do({"action": "release", "port": port})

            @rule()
            def rival_start(self):
                self.do({"action": "rival_start"})

            @rule(n=st.integers(1, 3))
            def cycle(self, n):
                self.do({"action": "cycle", "n": n})

            @rule(secs=st.sampled_from([1, 61, 301, 3601, 90_000]))
            def idle(self, secs):
                self.do({"action": "idle", "secs": secs})

            @precondition(lambda self: not self.sys.running and not self.sys.occupied)
            @rule()
            def new_loop(self):
                self.do({"action": "new_loop"})

            def teardown(self):
                if self.sys is None:
                    return
                steps = self.sys.trace
                rep.tick(sub_name, key=(nports, self.sys.container, steps), nontrivial=nontrivial(steps), sample=self.sys.case(),
                         labels=tuple(sorted({"has-" + s["action"] for s in steps})) + (f"ports-as-{self.sys.container}",))
                self.sys.close()

        Machine.__name__ = f"C17Ports{nports}"
        return Machine
    return factory


def subchecks(tier):
    big = tier == "thorough"
    return [Sub(f"ports={n}", body, machine=machine_factory(n), n=12_000 if big else 600, steps=40, shards=4 if big else 2)
            for n in (1, 2, 3, 4)]
