"""C07 - the bridge delivers each valid broadcast once, in order, whatever else arrives."""
import asyncio
import hashlib

from hypothesis import strategies as st

from ..engine import Sub, Violation
from ..fake import net, udptx
from ..ref import broadcast as refb
from .c09 import pattern

PROP = "C07"
LEVEL = "exploration"
DESIGN_REF = "DESIGN.md section 3, C07"
TECHNIQUE = "generated datagram histories (valid broadcasts of every family interleaved with foreign, truncated, bit-flipped, unknown-model and undecodable datagrams, spread over 1..4 ports, with the user callback raising on chosen invocations) sent to a running bridge over loopback UDP; oracle = per-port ordered callback log versus the reference classifier's valid subsequence, closed by a sentinel barrier on every port"
LEVEL_TEXT = ("Each case is a history of up to 60 datagrams, every one tagged by a unique device id. A reference classifier labels "
              "each datagram valid / must-be-ignored / unspecified. Per port the callback tags restricted to valid ones must equal "
              "the valid send order exactly (no loss, duplicate, reordering), ignored tags never appear, and a final sentinel on every "
              "port must still be delivered, also after callbacks that raised. Histories are sampled and shrunk; 'never stops later "
              "deliveries' is checked up to the sentinel barrier.")
RULE = ("case = ports (1..4) + callback indices that raise + datagram list (kind, port, parameters); non-trivial = at least one valid "
        "datagram after a bad datagram or a raising callback on the same port; distinct by the label sequence with ports."
        ' Datagram kinds include byte-identical repeats of earlier datagrams (same or other port); the bridge is optionally stopped and started again before the traffic; the callback is a bound method, function, partial, bound method of an otherwise unreferenced object, or a callable that is falsy.')
ASSUMPTIONS = [
    "loopback UDP keeps per-socket order; kernel drops (from /proc/net/udp) or a sentinel that needed retransmission make the case inconclusive",
    "gate-passing frames of a known model that the reference cannot vouch for (bit flips, undecodable fields) are 'unspecified': their tags are ignored, only their isolation is checked",
]

FAMILIES = list(refb.MODELS)          # model codes


def _h(*p):
    return int.from_bytes(hashlib.blake2b("/".join(map(str, p)).encode(), digest_size=8).digest(), "big")


def tag_of(i):
    return f"{i + 1:06x}"


def valid_fields(code, tag, seed):
    r = _h(code, tag, seed)
    f = {"model": code, "device_id": tag, "key": r % 256, "name": f"dev-{tag}", "ip": [10, r >> 8 & 255, r >> 16 & 255, r >> 24 & 255],
         "mac": [2, r >> 32 & 255, r >> 40 & 255, 3, 4, 5]}
    cat = refb.MODELS[code][1]
    if cat in ("WATER_HEATER", "POWER_PLUG"):
        f.update(on=bool(r & 1), power=(r >> 9) % 3000, remaining=(r >> 21) % 86400, auto_shutdown=(r >> 38) % 86400)
    elif cat == "SHUTTER":
        f.update(position=(r >> 9) % 101, direction=["stop", "up", "down"][(r >> 20) % 3])
    else:
        f.update(on=bool(r & 1), mode=1 + (r >> 3) % 5, target=16 + (r >> 7) % 15, fan=(r >> 12) % 4, swing=(r >> 15) % 2,
                 temp_tenths=(r >> 20) % 400, remote_id="ELEC7001")
    return f


def build(i, d, caps):
    """-> (bytes, label, tag) with label in valid / ignored / unspecified."""
    tag = tag_of(i)
    k = d["kind"]
    code = FAMILIES[d.get("family", 0) % len(FAMILIES)]
    base = refb.encode(valid_fields(code, tag, d.get("seed", 0)))
    if k == "valid":
        return base, "valid", tag
    if k == "foreign":
        n = d.get("len", 50)
        data = pattern(max(n, 1), d.get("seed", 0))[:n]
        if refb.gate(data):
            data = b"\x00" + data[1:]
        return data, "ignored", None
    if k == "truncated":
        cut = 1 + d.get("cut", 0) % 40
        data = base[:-cut]
        return data, ("unspecified" if refb.gate(data) else "ignored"), tag
    if k == "extended":
        data = base + pattern(1 + d.get("cut", 0) % 5, 3)
        return data, ("unspecified" if refb.gate(data) else "ignored"), tag
    if k == "flipped":
        pos = d.get("bit", 0) % (len(base) * 8)
        if 18 <= pos // 8 <= 20:
            pos = (pos + 24) % (len(base) * 8)
        b = bytearray(base)
        b[pos // 8] ^= 1 << (pos % 8)
        data = bytes(b)
        if not refb.gate(data) or refb.model_of(data) not in refb.MODELS:
            return data, "ignored", tag
        return data, "unspecified", tag
    if k == "unknown":
        c = d.get("code", 0xFFFF) % 65536
        hexc = f"{c:04x}"
        if hexc in refb.MODELS:
            hexc = "ffff"
        b = bytearray(base)
        b[74:76] = bytes.fromhex(hexc)
        return bytes(b), "ignored", tag
    if k == "undecodable":
        b = bytearray(base)
        cat = refb.MODELS[code][1]
        how = d.get("how", 0) % 4
        if how == 3:
            b[42:74] = b"n" * 31 + b"\xd7"                      # name field ends in the middle of a two-byte character
        elif how == 0 or cat == "POWER_PLUG":
            b[42:46] = b"\xff\xfe\xfd\xfc"                      # name is not UTF-8
        elif cat == "WATER_HEATER":
            b[133] = 1
            b[147:151] = (86400 + d.get("seed", 0) % 1000).to_bytes(4, "little")   # remaining >= 24 h
        elif cat == "SHUTTER":
            b[137:139] = b"\x02\x02"                             # no such direction
        else:
            b[143:146] = b"\xff\xff\xff"                         # remote id is not UTF-8
        return bytes(b), "unspecified", tag
    raise KeyError(k)


async def run_history(case):
    nports = case["ports"]
    rig = udptx.Rig(nports)
    rig.raise_on = set(case.get("raise_on", []))
    caps = None
    sent = []
    await rig.start(case.get("callback", "bound-method"))
    try:
        for _ in range(case.get("restarts", 0)):
            # "a running bridge" includes one that was stopped and started again
            await rig.bridge.stop()
            await asyncio.sleep(0)
            await asyncio.sleep(0)
            await rig.bridge.start()
        built = []
        for i, d in enumerate(case["dgrams"]):
            if d["kind"] == "repeat" and built:
                # a byte-identical copy of an earlier datagram (devices repeat their status broadcast unchanged)
                data, label, tag = built[d.get("of", 0) % len(built)]
            elif d["kind"] == "repeat":
                data, label, tag = build(i, dict(d, kind="valid"), caps)
            else:
                data, label, tag = build(i, d, caps)
            built.append((data, label, tag))
            if case.get("rival_at") is not None and i == case["rival_at"] % len(case["dgrams"]):
                # a second bridge object that shares a port with this one tries to start (and fails): no business of ours
                from aioswitcher.bridge import SwitcherBridge
                rival = SwitcherBridge(lambda dev_: None, [net.udp_ports(8)[7], rig.ports[-1]])
                try:
                    await rival.start()
                except OSError:
                    pass
                finally:
                    try:
                        await rival.stop()
                    except Exception:
                        pass
            pi = d.get("port", 0) % nports
            sent.append((pi, label, tag, d["kind"]))
            await rig.send(rig.ports[pi], data)
        dead = await rig.barrier()
        tags = [getattr(dev, "device_id", None) for dev in rig.callbacks]
        names = [getattr(dev, "name", None) for dev in rig.callbacks]
        return sent, tags, names, [rig.ports.index(p) for p in dead], list(rig.loop_errors), rig.invocations
    finally:
        await rig.stop()


def body(rep, case, sub="histories"):
    sent, tags, names, dead, loop_errors, invocations = net.run(run_history(case), timeout=180)
    raise_on = set(case.get("raise_on", []))
    # non-triviality: a valid datagram after a bad one (or after a raising callback) on the same port
    nt = False
    bad_seen = set()
    valid_count = 0
    for pi, label, tag, kind in sent:
        if label == "valid":
            if pi in bad_seen:
                nt = True
            if valid_count in raise_on:
                bad_seen.add(pi)
            valid_count += 1
        else:
            bad_seen.add(pi)
    labels = sorted({f"has-{k}" for _, _, _, k in sent}) + [f"ports={case['ports']}"] + (["callback-raises"] if raise_on else []) + (
        ["after-restart"] if case.get("restarts") else []) + [f"callback={case.get('callback', 'bound-method')}"] + (
        ["rival-bridge-mid-history"] if case.get("rival_at") is not None else [])
    rep.tick(sub, key=[(pi, label, kind) for pi, label, tag, kind in sent] + [sorted(raise_on)], nontrivial=nt, sample=case, labels=labels)
    ports_of = {}
    for pi, label, tag, kind in sent:
        if tag:
            ports_of.setdefault(tag, set()).add(pi)
    multi = {t for t, ps in ports_of.items() if len(ps) > 1}
    port_of = {tag: pi for pi, label, tag, kind in sent if tag and tag not in multi}
    label_of = {tag: label for pi, label, tag, kind in sent if tag}
    if dead:
        bad = any(l != "valid" for _, l, _, _ in sent)
        raise Violation("C07/delivery-stops/" + (f"callback={case['callback']}/" if case.get("callback") else "")
                        + ("after-restart/" if case.get("restarts") else "") + "after-"
                        + ("bad-datagram" if bad else "raising-callback" if raise_on else "valid-only"), case,
                        "closing sentinel delivered on every port", {"dead_port_indices": dead, "loop_errors": loop_errors[:3]})
    for t in tags:
        if t not in label_of:
            raise Violation("C07/unknown-tag-delivered", case, "only sent ids", t)
        if label_of[t] == "ignored":
            kind = next(k for _, _, tg, k in sent if tg == t)
            raise Violation(f"C07/ignored-datagram-delivered/{kind}", case, "no callback", t)
    for t in multi:
        if label_of[t] == "valid":
            n_sent = sum(1 for _, _, tg, _ in sent if tg == t)
            if tags.count(t) != n_sent:
                raise Violation("C07/repeated-broadcast-count", case, {"tag": t, "deliveries": n_sent}, {"tag": t, "deliveries": tags.count(t)})
    for pi in range(case["ports"]):
        want = [tag for p, label, tag, kind in sent if p == pi and label == "valid" and tag not in multi]
        got = [t for t in tags if port_of.get(t) == pi and label_of.get(t) == "valid"]
        if want != got:
            from collections import Counter
            cw, cg = Counter(want), Counter(got)
            if any(cg[t] > cw[t] for t in cg):
                what = "duplicate"
            elif cw != cg:
                missing = next(t for t in want if cg[t] < cw[t])
                idx = next(i for i, s_ in enumerate(sent) if s_[2] == missing)
                if cw[missing] > 1:
                    what = "lost/repeated-broadcast"
                elif any(l != "valid" for _, l, _, _ in sent[:idx]):
                    what = "lost/after-bad-datagram"
                elif raise_on:
                    what = "lost/after-raising-callback"
                else:
                    what = "lost"
            else:
                what = "reordered"
            raise Violation(f"C07/{what}", case, {"port_index": pi, "valid_order": want}, {"port_index": pi, "callback_order": got})
    for t, nm in zip(tags, names):
        if label_of.get(t) == "valid" and nm != f"dev-{t}":
            raise Violation("C07/wrong-device-decoded", case, f"dev-{t}", nm)


# -- strategies ---------------------------------------------------------------------------------------

def dgram(nports):
    port = st.integers(0, nports - 1)
    fam = st.integers(0, len(FAMILIES) - 1)
    seed = st.integers(0, 10 ** 6)
    return st.one_of(
        st.builds(lambda p, f, s: {"kind": "valid", "port": p, "family": f, "seed": s}, port, fam, seed),
        st.builds(lambda p, f, s: {"kind": "valid", "port": p, "family": f, "seed": s}, port, fam, seed),
        st.builds(lambda p, n, s: {"kind": "foreign", "port": p, "len": n, "seed": s}, port,
                  st.one_of(st.integers(0, 400), st.sampled_from([0, 1, 159, 165, 168])), seed),
        st.builds(lambda p, f, c: {"kind": "truncated", "port": p, "family": f, "cut": c}, port, fam, st.integers(0, 39)),
        st.builds(lambda p, f, c: {"kind": "extended", "port": p, "family": f, "cut": c}, port, fam, st.integers(0, 4)),
        st.builds(lambda p, f, b, s: {"kind": "flipped", "port": p, "family": f, "bit": b, "seed": s}, port, fam, st.integers(0, 1343), seed),
        st.builds(lambda p, f, c: {"kind": "unknown", "port": p, "family": f, "code": c}, port, fam, st.integers(0, 65535)),
        st.builds(lambda p, f, h, s: {"kind": "undecodable", "port": p, "family": f, "how": h, "seed": s}, port, fam, st.integers(0, 3), seed),
        st.builds(lambda p, f, o: {"kind": "repeat", "port": p, "family": f, "of": o}, port, fam, st.integers(0, 59)),
        st.builds(lambda p, f: {"kind": "repeat", "port": p, "family": f, "of": -1}, port, fam),
    )


def strat(nports):
    return lambda: st.builds(
        lambda ds, ro, rs, cb, rv: dict({"ports": nports, "dgrams": ds, "raise_on": sorted(set(ro))}, **({"restarts": rs} if rs else {}),
                                        **({"callback": cb} if cb != "bound-method" else {}), **({"rival_at": rv} if rv is not None else {})),
        st.one_of(st.lists(dgram(nports), min_size=1, max_size=60), st.lists(dgram(nports), min_size=12, max_size=60)),
        st.one_of(st.just([]), st.lists(st.integers(0, 30), max_size=6)), st.sampled_from([0, 0, 0, 0, 1, 2]),
        st.sampled_from(["bound-method", "bound-method", "function", "partial", "unreferenced-owner", "falsy-callable"]),
        st.one_of(st.none(), st.none(), st.integers(0, 59)))


def subchecks(tier):
    big = tier == "thorough"
    return [Sub(f"histories/ports={n}", lambda rep, case, n=n: body(rep, case, f"histories/ports={n}"), strategy=strat(n),
                n=40_000 if big else 1200, shards=4 if big else 2, shrink_budget=100) for n in (1, 2, 3, 4)]
