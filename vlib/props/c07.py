"""C07 - the bridge delivers each valid broadcast once, in order, whatever else arrives."""
import asyncio
import hashlib

from hypothesis import strategies as st

from ..engine import Sub, Violation
from ..fake import net, udptx
from ..ref import broadcast as refb
from .c09 import pattern

PROP = "C07"
LEVEL = "exploration"
DESIGN_REF = "DESIGN.md section 3, C07"
TECHNIQUE = "generated datagram histories (valid broadcasts of every family interleaved with foreign, truncated, bit-flipped, unknown-model and undecodable datagrams, spread over 1..4 ports, with the user callback raising on chosen invocations) sent to a running bridge over loopback UDP; oracle = per-port ordered callback log versus the reference classifier's valid subsequence, closed by a sentinel barrier on every port"
LEVEL_TEXT = ("Each case is a history of up to 60 datagrams, every one tagged by a unique device id. A reference classifier labels "
              "each datagram valid / must-be-ignored / unspecified. Per port the callback tags restricted to valid ones must equal "
              "the valid send order exactly (no loss, duplicate, reordering), ignored tags never appear, and a final sentinel on every "
              "port must still be delivered, also after callbacks that raised. Histories are sampled and shrunk; 'never stops later "
              "deliveries' is checked up to the sentinel barrier.")
RULE = ("case = ports (1..4) + callback indices that raise + datagram list (kind, port, parameters); non-trivial = at least one valid "
        "datagram after a bad datagram or a raising callback on the same port; distinct by the label sequence with ports."
        ' Histories also contain silences of 1 s .. 25 h of event-loop time (harness-owned loop clock), steps of the wall clock (back and forth, time_machine) and optionally a replaced event loop (bridge stopped, loop closed, new loop, bridge started again). Sub-check scenarios enumerates unbroken runs of 64..260 (thorough 1030) failing datagrams / raising callbacks followed by valid ones, a clock set back between repeats of one broadcast, long silences and loop replacement; sub-check soak pushes 66 000 (thorough 300 000) datagrams through one bridge port. Datagram kinds include byte-identical repeats of earlier datagrams (same or other port); the bridge is optionally stopped and started again before the traffic; the callback is a bound method, function, partial, bound method of an otherwise unreferenced object, or a callable that is falsy.')
ASSUMPTIONS = [
    "loopback UDP keeps per-socket order; kernel drops (from /proc/net/udp) or a sentinel that needed retransmission make the case inconclusive",
    "gate-passing frames of a known model that the reference cannot vouch for (bit flips, undecodable fields) are 'unspecified': their tags are ignored, only their isolation is checked",
]

FAMILIES = list(refb.MODELS)          # model codes


def _h(*p):
    return int.from_bytes(hashlib.blake2b("/".join(map(str, p)).encode(), digest_size=8).digest(), "big")


FIELDS_OF = {}        # tag -> the field values of the valid broadcast built for it in this case


def tag_of(i):
    return f"{i + 1:06x}"


def valid_fields(code, tag, seed):
    r = _h(code, tag, seed)
    f = {"model": code, "device_id": tag, "key": r % 256, "name": f"dev-{tag}", "ip": [10, r >> 8 & 255, r >> 16 & 255, r >> 24 & 255],
         "mac": [2, r >> 32 & 255, r >> 40 & 255, 3, 4, 5]}
    cat = refb.MODELS[code][1]
    if cat in ("WATER_HEATER", "POWER_PLUG"):
        f.update(on=bool(r & 1), power=(r >> 9) % 3000, remaining=(r >> 21) % 86400, auto_shutdown=(r >> 38) % 86400)
    elif cat == "SHUTTER":
        f.update(position=(r >> 9) % 101, direction=["stop", "up", "down"][(r >> 20) % 3])
    else:
        f.update(on=bool(r & 1), mode=1 + (r >> 3) % 5, target=16 + (r >> 7) % 15, fan=(r >> 12) % 4, swing=(r >> 15) % 2,
                 temp_tenths=(r >> 20) % 400, remote_id="ELEC7001")
    return f


def build(i, d, caps):
    """-> (bytes, label, tag) with label in valid / ignored / unspecified."""
    tag = tag_of(i)
    k = d["kind"]
    code = FAMILIES[d.get("family", 0) % len(FAMILIES)]
    base = refb.encode(valid_fields(code, tag, d.get("seed", 0)))
    if k == "valid":
        FIELDS_OF[tag] = valid_fields(code, tag, d.get("seed", 0))
        return base, "valid", tag
    if k == "foreign":
        n = d.get("len", 50)
        data = pattern(max(n, 1), d.get("seed", 0))[:n]
        if d.get("model") is not None and n >= 76:
            # junk of a genuine length that even names a known model - only the magic is missing
            b = bytearray(data)
            b[74:76] = bytes.fromhex(FAMILIES[d["model"] % len(FAMILIES)])
            b[0:2] = [b"\x00\x00", b"\xf0\xfe", b"\xfe\xf1", b"\xfe\x00"][d.get("seed", 0) % 4]
            data = bytes(b)
        if refb.gate(data):
            data = b"\x00" + data[1:]
        return data, "ignored", None
    if k == "truncated":
        cut = 1 + d.get("cut", 0) % 40
        data = base[:-cut]
        return data, ("unspecified" if refb.gate(data) else "ignored"), tag
    if k == "extended":
        data = base + pattern(1 + d.get("cut", 0) % 5, 3)
        return data, ("unspecified" if refb.gate(data) else "ignored"), tag
    if k == "flipped":
        pos = d.get("bit", 0) % (len(base) * 8)
        if 18 <= pos // 8 <= 20:
            pos = (pos + 24) % (len(base) * 8)
        b = bytearray(base)
        b[pos // 8] ^= 1 << (pos % 8)
        data = bytes(b)
        if not refb.gate(data) or refb.model_of(data) not in refb.MODELS:
            return data, "ignored", tag
        return data, "unspecified", tag
    if k == "unknown":
        c = d.get("code", 0xFFFF) % 65536
        hexc = f"{c:04x}"
        if hexc in refb.MODELS:
            hexc = "ffff"
        b = bytearray(base)
        b[74:76] = bytes.fromhex(hexc)
        return bytes(b), "ignored", tag
    if k == "undecodable":
        b = bytearray(base)
        cat = refb.MODELS[code][1]
        how = d.get("how", 0) % 4
        if how == 3:
            b[42:74] = b"n" * 31 + b"\xd7"                      # name field ends in the middle of a two-byte character
        elif how == 0 or cat == "POWER_PLUG":
            b[42:46] = b"\xff\xfe\xfd\xfc"                      # name is not UTF-8
        elif cat == "WATER_HEATER":
            b[133] = 1
            b[147:151] = (86400 + d.get("seed", 0) % 1000).to_bytes(4, "little")   # remaining >= 24 h
        elif cat == "SHUTTER":
            b[137:139] = b"\x02\x02"                             # no such direction
        else:
            b[143:146] = b"\xff\xff\xff"                         # remote id is not UTF-8
        return bytes(b), "unspecified", tag
    raise KeyError(k)


LAST_HISTORY = [None]


class History:
    """One case, run in phases so that the event loop can be replaced between two of them."""

    def __init__(self, case):
        self.case = case
        self.nports = case["ports"]
        self.rig = udptx.Rig(self.nports)
        self.rig.raise_on = set(case.get("raise_on", []))
        self.rig.raise_salt = case.get("raise_salt", 0)
        self.rig.scribble = bool(case.get("scribble"))
        self.sent = []
        self.built = []
        self.traveller = None
        self.now = case.get("t0", 1_700_000_000)
        self.rig.quiet_windows = bool(case.get("scenario"))
        self.stopped = []

    async def begin(self):
        rig = self.rig
        await rig.start(self.case.get("callback", "bound-method"))
        for _ in range(self.case.get("restarts", 0)):
            # "a running bridge" includes one that was stopped and started again
            await rig.bridge.stop()
            await asyncio.sleep(0)
            await asyncio.sleep(0)
            await rig.bridge.start()

    async def feed(self, lo, hi):
        case, rig, nports = self.case, self.rig, self.nports
        for i in range(lo, hi):
            d = case["dgrams"][i]
            if d["kind"] == "idle":
                # nothing arrives for a while (event-loop time, harness-owned clock)
                await net.idle(d["secs"])
                continue
            if d["kind"] == "clock":
                # the host's wall clock is stepped (NTP correction, DST fall-back seen through naive local time)
                self.now += d["delta"]
                if self.traveller is not None:
                    self.traveller.move_to(float(self.now))
                continue
            if d["kind"] == "repeat" and self.built:
                # a byte-identical copy of an earlier datagram (devices repeat their status broadcast unchanged)
                data, label, tag = self.built[d.get("of", 0) % len(self.built)]
            elif d["kind"] == "repeat":
                data, label, tag = build(i, dict(d, kind="valid"), None)
            else:
                data, label, tag = build(i, d, None)
            self.built.append((data, label, tag))
            if case.get("rival_at") is not None and i == case["rival_at"] % len(case["dgrams"]):
                # a second bridge object that shares a port with this one tries to start (and fails): no business of ours
                from aioswitcher.bridge import SwitcherBridge
                rival = SwitcherBridge(lambda dev_: None, [net.udp_ports(8)[7], rig.ports[-1]])
                try:
                    await rival.start()
                except OSError:
                    pass
                finally:
                    try:
                        await rival.stop()
                    except Exception:
                        pass
            pi = d.get("port", 0) % nports
            try:
                await rig.send(rig.ports[pi], data)
            except udptx.DeliveryStopped as exc:
                self.stopped = exc.ports        # no point in going on: the closing barrier reports it
                return
            self.sent.append((pi, label, tag, d["kind"]))

    async def pause(self):
        """Everything sent so far is delivered, then the bridge is stopped (the loop is about to be replaced)."""
        self.dead_before = await self.rig.barrier()
        await self.rig.bridge.stop()
        self.rig.unobserve()
        for _ in range(3):
            await asyncio.sleep(0)

    async def resume(self):
        self.rig.observe()
        await self.rig.bridge.start()

    async def end(self):
        rig = self.rig
        dead = self.stopped or await rig.barrier()
        dead = sorted(set(dead) | set(getattr(self, "dead_before", [])))
        tags = [getattr(dev, "device_id", None) for dev in rig.callbacks]
        names = [getattr(dev, "name", None) for dev in rig.callbacks]
        self.devices = list(rig.callbacks)
        return self.sent, tags, names, [rig.ports.index(p) for p in dead], list(rig.loop_errors), rig.invocations

    async def close(self):
        await self.rig.stop()


def run_case(case):
    import time_machine
    FIELDS_OF.clear()
    h = History(case)
    LAST_HISTORY[0] = h
    n = len(case["dgrams"])
    cut = case.get("new_loop_at")
    cut = None if cut is None else cut % (n + 1)
    needs_clock = any(d["kind"] == "clock" for d in case["dgrams"])
    ctx = time_machine.travel(float(h.now), tick=False) if needs_clock else None
    if ctx is not None:
        h.traveller = ctx.__enter__()
    try:
        try:
            net.run(h.begin(), timeout=180)
            if cut is None:
                net.run(h.feed(0, n), timeout=None)
            else:
                net.run(h.feed(0, cut), timeout=None)
                net.run(h.pause(), timeout=180)
                net.new_loop()          # asyncio.run() called a second time: the bridge object is kept
                net.run(h.resume(), timeout=180)
                net.run(h.feed(cut, n), timeout=None)
            return net.run(h.end(), timeout=180)
        finally:
            net.run(h.close(), timeout=60)
    finally:
        if ctx is not None:
            ctx.__exit__(None, None, None)


def body(rep, case, sub="histories"):
    sent, tags, names, dead, loop_errors, invocations = run_case(case)
    raise_on = set(case.get("raise_on", []))
    # non-triviality: a valid datagram after a bad one (or after a raising callback) on the same port
    nt = False
    bad_seen = set()
    valid_count = 0
    for pi, label, tag, kind in sent:
        if label == "valid":
            if pi in bad_seen:
                nt = True
            if valid_count in raise_on:
                bad_seen.add(pi)
            valid_count += 1
        else:
            bad_seen.add(pi)
    labels = sorted({f"has-{k}" for _, _, _, k in sent}) + [f"ports={case['ports']}"] + (["callback-raises"] if raise_on else []) + (
        ["after-restart"] if case.get("restarts") else []) + [f"callback={case.get('callback', 'bound-method')}"] + (
        ["rival-bridge-mid-history"] if case.get("rival_at") is not None else []) + (
        ["loop-replaced-mid-history"] if case.get("new_loop_at") is not None else []) + sorted(
        {f"has-{d['kind']}" for d in case["dgrams"] if d["kind"] in ("idle", "clock")})
    rep.tick(sub, key=[(pi, label, kind) for pi, label, tag, kind in sent] + [sorted(raise_on)], nontrivial=nt, sample=case, labels=labels)
    ports_of = {}
    for pi, label, tag, kind in sent:
        if tag:
            ports_of.setdefault(tag, set()).add(pi)
    multi = {t for t, ps in ports_of.items() if len(ps) > 1}
    port_of = {tag: pi for pi, label, tag, kind in sent if tag and tag not in multi}
    label_of = {tag: label for pi, label, tag, kind in sent if tag}
    if dead:
        bad = any(l != "valid" for _, l, _, _ in sent)
        raise Violation("C07/delivery-stops/" + (f"callback={case['callback']}/" if case.get("callback") else "")
                        + ("after-restart/" if case.get("restarts") else "") + "after-"
                        + ("bad-datagram" if bad else "raising-callback" if raise_on else "valid-only"), case,
                        "closing sentinel delivered on every port", {"dead_port_indices": dead, "loop_errors": loop_errors[:3]})
    for t in tags:
        if t not in label_of:
            raise Violation("C07/unknown-tag-delivered", case, "only sent ids", t)
        if label_of[t] == "ignored":
            kind = next(k for _, _, tg, k in sent if tg == t)
            raise Violation(f"C07/ignored-datagram-delivered/{kind}", case, "no callback", t)
    for t in multi:
        if label_of[t] == "valid":
            n_sent = sum(1 for _, _, tg, _ in sent if tg == t)
            if tags.count(t) != n_sent:
                raise Violation("C07/repeated-broadcast-count", case, {"tag": t, "deliveries": n_sent}, {"tag": t, "deliveries": tags.count(t)})
    for pi in range(case["ports"]):
        want = [tag for p, label, tag, kind in sent if p == pi and label == "valid" and tag not in multi]
        got = [t for t in tags if port_of.get(t) == pi and label_of.get(t) == "valid"]
        if want != got:
            from collections import Counter
            cw, cg = Counter(want), Counter(got)
            if any(cg[t] > cw[t] for t in cg):
                what = "duplicate"
            elif cw != cg:
                missing = next(t for t in want if cg[t] < cw[t])
                idx = next(i for i, s_ in enumerate(sent) if s_[2] == missing)
                if cw[missing] > 1:
                    what = "lost/repeated-broadcast"
                elif any(l != "valid" for _, l, _, _ in sent[:idx]):
                    what = "lost/after-bad-datagram"
                elif raise_on:
                    what = "lost/after-raising-callback"
                else:
                    what = "lost"
            else:
                what = "reordered"
            raise Violation(f"C07/{what}", case, {"port_index": pi, "valid_order": want}, {"port_index": pi, "callback_order": got})
    for t, nm in zip(tags, names):
        if label_of.get(t) == "valid" and nm != f"dev-{t}":
            raise Violation("C07/wrong-device-decoded", case, f"dev-{t}", nm)
    # "... with the decoded device": every field of what was delivered for a valid broadcast (C05's comparison)
    from . import c05
    for dev in getattr(LAST_HISTORY[0], "devices", []):
        f = FIELDS_OF.get(getattr(dev, "device_id", None))
        if f is not None and label_of.get(f["device_id"]) == "valid":
            try:
                c05.judge(f, dev, case)
            except Violation as v:
                raise Violation("C07/wrong-device-decoded/" + v.signature.split("/", 1)[1], case, v.expected, v.observed)


# -- strategies ---------------------------------------------------------------------------------------

def dgram(nports):
    port = st.integers(0, nports - 1)
    fam = st.integers(0, len(FAMILIES) - 1)
    seed = st.integers(0, 10 ** 6)
    return st.one_of(
        st.builds(lambda p, f, s: {"kind": "valid", "port": p, "family": f, "seed": s}, port, fam, seed),
        st.builds(lambda p, f, s: {"kind": "valid", "port": p, "family": f, "seed": s}, port, fam, seed),
        st.builds(lambda p, n, s: {"kind": "foreign", "port": p, "len": n, "seed": s}, port,
                  st.one_of(st.integers(0, 400), st.sampled_from([0, 1, 159, 165, 168])), seed),
        st.builds(lambda p, n, s, m: {"kind": "foreign", "port": p, "len": n, "seed": s, "model": m}, port,
                  st.sampled_from([159, 165, 168, 168, 159, 162, 170]), seed, fam),
        st.builds(lambda p, f, c: {"kind": "truncated", "port": p, "family": f, "cut": c}, port, fam, st.integers(0, 39)),
        st.builds(lambda p, f, c: {"kind": "extended", "port": p, "family": f, "cut": c}, port, fam, st.integers(0, 4)),
        st.builds(lambda p, f, b, s: {"kind": "flipped", "port": p, "family": f, "bit": b, "seed": s}, port, fam, st.integers(0, 1343), seed),
        st.builds(lambda p, f, c: {"kind": "unknown", "port": p, "family": f, "code": c}, port, fam, st.integers(0, 65535)),
        st.builds(lambda p, f, h, s: {"kind": "undecodable", "port": p, "family": f, "how": h, "seed": s}, port, fam, st.integers(0, 3), seed),
        st.builds(lambda p, f, o: {"kind": "repeat", "port": p, "family": f, "of": o}, port, fam, st.integers(0, 59)),
        st.builds(lambda p, f: {"kind": "repeat", "port": p, "family": f, "of": -1}, port, fam),
        st.one_of(st.builds(lambda n: {"kind": "idle", "secs": n}, st.sampled_from([1, 61, 301, 3601, 90_000])),
                  st.builds(lambda n: {"kind": "clock", "delta": n}, st.sampled_from([-86_400, -3600, -61, -1, 1, 3600, 86_400 * 400]))),
    )


def strat(nports):
    return lambda: st.builds(
        lambda ds, ro, rs, cb, rv, nl: dict({"ports": nports, "dgrams": ds, "raise_on": sorted(set(ro))}, **({"restarts": rs} if rs else {}),
                                            **({"raise_salt": len(ds) % 8} if ro else {}), **({"scribble": True} if len(ds) % 3 == 0 else {}),
                                            **({"callback": cb} if cb != "bound-method" else {}), **({"rival_at": rv} if rv is not None else {}),
                                            **({"new_loop_at": nl} if nl is not None else {})),
        st.one_of(st.lists(dgram(nports), min_size=1, max_size=60), st.lists(dgram(nports), min_size=12, max_size=60)),
        st.one_of(st.just([]), st.lists(st.integers(0, 30), max_size=6)), st.sampled_from([0, 0, 0, 0, 1, 2]),
        st.sampled_from(["bound-method", "bound-method", "function", "partial", "unreferenced-owner", "falsy-callable"]),
        st.one_of(st.none(), st.none(), st.integers(0, 59)),
        st.one_of(st.none(), st.none(), st.none(), st.integers(0, 60)))


def cases_scenarios(tier):
    """Hand-shaped histories a random list is unlikely to contain: long unbroken runs of failures, a wall clock that is set
    back between repeats of one device's broadcast, long silences, a replaced event loop."""
    def gen_cases():
        out = []
        runs = [64, 70, 130, 260] + ([520, 1030] if tier == "thorough" else [])
        for nports in (1, 2):
            tail = [{"kind": "valid", "port": p, "family": f, "seed": 7 + f} for p in range(nports) for f in (0, 3, 6)]
            for n in runs:
                bads = [("undecodable-%d" % h, {"kind": "undecodable", "how": h}) for h in range(4)] + [
                    ("foreign", {"kind": "foreign", "len": 165}), ("unknown", {"kind": "unknown", "code": 0x0b0b}),
                    ("truncated", {"kind": "truncated", "cut": 3})]
                for name, bad in bads:
                    ds = [{"kind": "valid", "port": 0, "family": 1, "seed": 1}]
                    ds += [dict(bad, port=0, family=(k % 9), seed=k) for k in range(n)]
                    out.append({"ports": nports, "dgrams": ds + tail, "raise_on": [], "scenario": f"run-of-{name}"})
                # the user callback fails n times in a row
                ds = [{"kind": "valid", "port": 0, "family": k % 9, "seed": k} for k in range(n + 1)]
                out.append({"ports": nports, "dgrams": ds + tail, "raise_on": list(range(1, n + 1)), "scenario": "run-of-raising-callbacks"})
        for fam in range(len(FAMILIES)):
            for salt in range(8):
                # the callback fails (each exception class in turn) on a broadcast, which the device then repeats unchanged
                ds = [{"kind": "valid", "port": 0, "family": fam, "seed": 40 + fam}, {"kind": "repeat", "port": 0, "family": fam, "of": 0},
                      {"kind": "repeat", "port": (1 if salt % 2 else 0), "family": fam, "of": 0}, {"kind": "valid", "port": 0, "family": fam, "seed": 41 + fam}]
                out.append({"ports": 2, "dgrams": ds, "raise_on": [0], "raise_salt": salt, "scenario": "repeat-after-failing-callback"})
            ds = [{"kind": "valid", "port": 0, "family": fam, "seed": 50 + fam}, {"kind": "repeat", "port": 0, "family": fam, "of": 0},
                  {"kind": "repeat", "port": 1, "family": fam, "of": 0}]
            out.append({"ports": 2, "dgrams": ds, "raise_on": [], "scribble": True, "scenario": "repeat-after-callback-edited-the-device"})
            for back in (-1, -61, -3600, -86_400):
                ds = [{"kind": "valid", "port": 0, "family": fam, "seed": fam}, {"kind": "clock", "delta": back},
                      {"kind": "repeat", "port": 0, "family": fam, "of": 0}, {"kind": "clock", "delta": -5},
                      {"kind": "repeat", "port": 0, "family": fam, "of": 0}, {"kind": "valid", "port": 0, "family": fam, "seed": 99},
                      {"kind": "clock", "delta": 1800}, {"kind": "repeat", "port": 0, "family": fam, "of": 0}]
                out.append({"ports": 1, "dgrams": ds, "raise_on": [], "t0": 1_635_641_995 + fam, "scenario": "clock-set-back"})
        for secs in (61, 301, 3601, 90_000):
            for nports in (1, 2):
                ds = []
                for k in range(4):
                    ds += [{"kind": "valid", "port": k % nports, "family": k, "seed": k}, {"kind": "foreign", "port": k % nports, "len": 40 + k, "seed": k},
                           {"kind": "idle", "secs": secs}, {"kind": "foreign", "port": k % nports, "len": 165, "seed": k},
                           {"kind": "valid", "port": k % nports, "family": k + 4, "seed": k}]
                out.append({"ports": nports, "dgrams": ds, "raise_on": [1], "scenario": "long-silence"})
        for nports in (1, 2, 3):
            for cut in (0, 3, 7):
                ds = [{"kind": ("valid", "foreign", "valid", "undecodable")[k % 4], "port": k % nports, "family": k % 9, "seed": k, "how": k, "len": 165}
                      for k in range(12)]
                out.append({"ports": nports, "dgrams": ds, "raise_on": [2], "new_loop_at": cut, "scenario": "loop-replaced"})
                out.append({"ports": nports, "dgrams": ds, "raise_on": [], "new_loop_at": cut, "restarts": 1, "callback": "function",
                            "scenario": "loop-replaced"})
        return out
    return gen_cases


def body_soak(rep, case, prop="C07"):
    """Tens of thousands of datagrams through ONE bridge object on one port: every valid one must still arrive exactly once."""
    async def go():
        rig = udptx.Rig(1)
        rig.quiet_windows = True
        await rig.start()
        try:
            port = rig.ports[0]
            n, every = case["n"], case["valid_every"]
            want = []
            junk = pattern(165, 5)
            junk = (b"\x00" + junk[1:]) if refb.gate(junk) else junk
            for i in range(n):
                if i % every == 0:
                    tag = f"{(i // every) % 0xFFFFF0 + 1:06x}"
                    want.append(tag)
                    data = refb.encode(valid_fields(FAMILIES[(i // every) % len(FAMILIES)], tag, i))
                else:
                    data = junk
                try:
                    await rig.send(port, data)
                except udptx.DeliveryStopped:
                    return want, [getattr(d, "device_id", None) for d in rig.callbacks], [port], list(rig.loop_errors), [], []
                if i % 4096 == 4095 and await rig.barrier():
                    return want, [getattr(d, "device_id", None) for d in rig.callbacks], [port], list(rig.loop_errors), [], []
            dead = await rig.barrier()
            got = [getattr(d, "device_id", None) for d in rig.callbacks]
            return want, got, dead, list(rig.loop_errors), rig.warnings_so_far(), list(rig.log_records)
        finally:
            await rig.stop()
    want, got, dead, loop_errors, warns, logs = net.run(go(), timeout=900)
    rep.tick("soak", key=case, nontrivial=True, sample=case, n=case["n"], labels=("soak",))
    if dead:
        raise Violation(f"{prop}/delivery-stops/soak", case, "closing sentinel delivered", {"loop_errors": loop_errors[:3]})
    if want != got:
        k = next((i for i, (a, b) in enumerate(zip(want, got)) if a != b), min(len(want), len(got)))
        raise Violation(f"{prop}/soak-delivery-mismatch", case, {"valid_sent": len(want)},
                        {"delivered": len(got), "first_difference_at_valid_no": k, "datagram_no": k * case["valid_every"],
                         "loop_errors": loop_errors[:2]})
    if loop_errors or warns:
        raise Violation(f"{prop}/soak-noise", case, "no loop error, no warning", {"loop_errors": loop_errors[:2], "warnings": warns[:2]})


def cases_soak(tier):
    def gen_cases():
        if tier == "thorough":
            return [{"n": 70_000, "valid_every": 1}, {"n": 300_000, "valid_every": 10}, {"n": 140_000, "valid_every": 2}]
        return [{"n": 66_000, "valid_every": 2}]
    return gen_cases


def subchecks(tier):
    big = tier == "thorough"
    return [Sub(f"histories/ports={n}", lambda rep, case, n=n: body(rep, case, f"histories/ports={n}"), strategy=strat(n),
                n=40_000 if big else 1200, shards=4 if big else 2, shrink_budget=100) for n in (1, 2, 3, 4)] + [
        Sub("scenarios", lambda rep, case: body(rep, case, "scenarios"), cases=cases_scenarios(tier), shards=4, exhaustive=False),
        Sub("soak", body_soak, cases=cases_soak(tier), shards=3, exhaustive=False)]
