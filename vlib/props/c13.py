"""C13 - the next-run text names the earliest upcoming run of the schedule."""
import datetime as dt
import re

from hypothesis import strategies as st

from .. import vclock
from ..engine import Sub, Violation

PROP = "C13"
LEVEL = "exploration"
DESIGN_REF = "DESIGN.md section 3, C13"
TECHNIQUE = "exhaustive grid (7 weekdays x 128 day sets x minute-pair grid x zones east/west of UTC) under a virtual clock against a brute-force next-occurrence search; Hypothesis for off-grid times and dates"
LEVEL_TEXT = ("pretty_next_run (also via SwitcherSchedule.display) is evaluated under time_machine in zones east and west of "
              "UTC and compared with a brute-force search over the next 0..7 local calendar days. The stated grid is "
              "enumerated completely; Hypothesis adds arbitrary dates/times. Sampling beyond the grid proves nothing about unseen points.")
RULE = ("case = (zone, local now, day mask, start minute); grid: 7 current weekdays x 128 masks x (now, start) minute pairs "
        "over {00:00,00:01,06:30,12:00,12:01,23:58,23:59}^2 plus (t,t-1),(t,t),(t,t+1) x seconds {0,30,59} x zones. "
        "Non-trivial = today selected and its time passed, or local weekday != UTC weekday, or >= 2 days selected; "
        "distinct by (zone, weekday, now, mask, start)."
        ' Also: 8 clock readings around midnight on the day before/of/after every UTC-offset change 2023-2025 of 6 zones (dst-midnight), clocks a fraction of a second before/after the start minute (subsecond), the same record listed twice at two moments (repoll), and two or three readings less than a second apart that straddle the start minute or local midnight (quick-succession, enumerated over 4 zones x 4 dates x 5 day sets x 8 start times).'
        " For one mask class in 16 the start is also given without leading zeros ('9:30', '9:5'): a refusal is counted, not judged; a text that is returned must name the right day.")
ASSUMPTIONS = [
    "time_machine virtual clock + zone; 'still ahead' means start minute > current minute (a start equal to the current minute is not ahead)",
    "the text is matched case-insensitively for the tokens 'today', 'tomorrow', 'next <Weekday>' and the HH:MM start time",
]

WEEKDAYS = ["Monday", "Tuesday", "Wednesday", "Thursday", "Friday", "Saturday", "Sunday"]
C13_ZONES = ["UTC", "America/New_York", "Pacific/Pago_Pago", "Asia/Jerusalem", "Pacific/Kiritimati", "Asia/Kathmandu"]
# a base week (Monday 2024-06-03 .. Sunday 2024-06-09): no DST change in any of the zones above
BASE = dt.date(2024, 6, 3)


def _lib():
    from aioswitcher.schedule import Days, tools
    return Days, tools


def hhmm(m):
    return f"{m // 60:02d}:{m % 60:02d}"


def expected_token(weekday, now_min, mask, start_min):
    """Brute force over the next 0..7 local days."""
    if mask == 0:
        return "today"
    for k in range(0, 8):
        wd = (weekday + k) % 7
        if mask & (1 << (wd + 1)) and (k > 0 or start_min > now_min):
            if k == 0:
                return "today"
            if k == 1:
                return "tomorrow"
            return "next " + WEEKDAYS[wd].lower()
    raise AssertionError("unreachable")


def judge(text, token, start, mask, case, sigbase):
    if not isinstance(text, str):
        raise Violation(f"{sigbase}/type", case, "str", repr(text))
    low = text.lower()
    found = []
    if re.search(r"\btoday\b", low):
        found.append("today")
    if re.search(r"\btomorrow\b", low):
        found.append("tomorrow")
    for w in WEEKDAYS:
        if re.search(r"\b" + w.lower() + r"\b", low):
            found.append("next " + w.lower() if re.search(r"\bnext\s+" + w.lower() + r"\b", low) else w.lower())
    if found != [token]:
        kind = token.split()[0]
        raise Violation(f"{sigbase}/wrong-day/expected-{kind}", case, token, text)
    if start not in text:
        raise Violation(f"{sigbase}/start-time-missing", case, start, text)
    if token.startswith("next "):
        wd = [w.lower() for w in WEEKDAYS].index(token[5:])
        if not mask & (1 << (wd + 1)):
            raise Violation(f"{sigbase}/names-unselected-day", case, token, text)


def body(rep, case, sub="grid"):
    Days, tools = _lib()
    zname = case["zone"]
    y, mo, d, h, mi, s = case["now"][:6]
    micro = case["now"][6] if len(case["now"]) > 6 else 0
    mask, start_min = case["mask"], case["start"]
    days = {x for x in Days if mask & x.bit_rep}
    start = hhmm(start_min)
    with vclock.frozen(zname, y, mo, d, h, mi, s, micro=micro) as dest:
        weekday = dt.date(y, mo, d).weekday()
        utc_wd = dest.astimezone(vclock.UTC).weekday()
        now_min = h * 60 + mi
        token = expected_token(weekday, now_min, mask, start_min)
        passed = bool(mask & (1 << (weekday + 1))) and start_min <= now_min
        nt = passed or utc_wd != weekday or bin(mask).count("1") >= 2
        labels = []
        if passed:
            labels.append("today-selected-time-passed")
        if utc_wd != weekday:
            labels.append("local-weekday!=utc-weekday")
        labels.append("expect-" + token.split()[0])
        rep.tick(sub, key=(zname, y, mo, d, h, mi, s, micro, mask, start_min), nontrivial=nt, sample=case, labels=labels)
        forms = [("set", days)]
        if mask and case.get("forms"):
            forms.append(("frozenset", frozenset(days)))
        for form, arg in forms:
            text = tools.pretty_next_run(start, arg)
            judge(text, token, start, mask, case, "C13" + ("/utc-weekday-differs" if utc_wd != weekday else ""))
        if case.get("forms") and (start_min // 60 < 10 or start_min % 60 < 10):
            # the same start time written without its leading zeros ("9:30", "17:5"): strptime-style parsing takes it.  Whether
            # it is accepted is not stated (a refusal is counted, not judged); a text that IS returned must name the right day
            loose = f"{start_min // 60}:{start_min % 60}" if mask % 32 == 6 else f"{start_min // 60}:{start_min % 60:02d}"
            try:
                text = tools.pretty_next_run(loose, days)
            except (ValueError, TypeError):
                rep.label("unpadded-start-refused")
            else:
                rep.label("unpadded-start-answered")
                judge(text, token, loose if isinstance(text, str) and loose in text else start, mask, dict(case, start_text=loose),
                      "C13/unpadded-start")
        if not mask:
            judge(tools.pretty_next_run(start), token, start, mask, case, "C13/default-days")
        if case.get("via_schedule"):
            from aioswitcher.schedule.parser import SwitcherSchedule
            sch = SwitcherSchedule("0", bool(mask), days, start, hhmm((start_min + 30) % 1440))
            judge(sch.display, token, start, mask, case, "C13/display")


GRID = [0, 1, 390, 720, 721, 1438, 1439]


def minute_pairs():
    pairs = set()
    for a in GRID:
        for b in GRID:
            pairs.add((a, b))
    for t in GRID + [600, 900]:
        for delta in (-1, 0, 1):
            if 0 <= t + delta < 1440:
                pairs.add((t, t + delta))
    return sorted(pairs)


def cases_grid(tier):
    def gen():
        zones = C13_ZONES if tier == "thorough" else C13_ZONES[:4]
        out = []
        pairs = minute_pairs()
        for zi, zname in enumerate(zones):
            for wd in range(7):
                day = BASE + dt.timedelta(days=wd)
                for (now_min, start_min) in pairs:
                    secs = (0, 30, 59) if tier == "thorough" else ((now_min + wd) % 3 * 29 + (1 if (now_min + wd) % 3 else 0),)
                    for s in secs:
                        out.append({"zone": zname, "day": [day.year, day.month, day.day], "now_min": now_min,
                                    "sec": min(s, 59), "start": start_min})
        return out
    return gen


def body_grid(rep, case):
    """One grid cell = all 128 masks for a fixed (zone, day, now, start)."""
    if "mask" in case:
        return body(rep, case, "grid")
    y, mo, d = case["day"]
    for mask in range(0, 256, 2):
        one = {"zone": case["zone"], "now": [y, mo, d, case["now_min"] // 60, case["now_min"] % 60, case["sec"]],
               "mask": mask, "start": case["start"], "via_schedule": mask % 32 == 2, "forms": mask % 16 == 6}
        body(rep, one, "grid")


def body_repoll(rep, case):
    """The same schedule record listed twice (get-schedules reply parsed at two different moments): each listing's
    display text must name the next run as seen from the moment of that listing."""
    from aioswitcher.api.messages import SwitcherGetSchedulesResponse
    from ..ref import replies
    zname, mask, start_min = case["zone"], case["mask"], case["start"]
    z = vclock.zone(zname)
    first = True
    for now in (case["now1"], case["now2"]):
        y, mo, d, h, mi, s = now
        with vclock.frozen(zname, y, mo, d, h, mi, s):
            day0 = dt.datetime(y, mo, d, start_min // 60, start_min % 60, tzinfo=z)
            epoch = int(day0.timestamp()) if first else epoch      # the record itself never changes
            reply = replies.schedules([(case.get("slot", 2), True, mask, 1, epoch, epoch + 1800, bytes(4))])
            if not first and case.get("bad_between"):
                # a reply cut in the middle of a record came in between (the parser may raise on it)
                try:
                    SwitcherGetSchedulesResponse(reply[:-9])
                except Exception:
                    pass
            resp = SwitcherGetSchedulesResponse(reply)
            sch = next(iter(resp.schedules))
            weekday = dt.date(y, mo, d).weekday()
            token = expected_token(weekday, h * 60 + mi, mask, int(sch.start_time[:2]) * 60 + int(sch.start_time[3:]))
            rep.tick("repoll", key=(zname, now, mask, start_min, first), nontrivial=not first, sample=case if not first else None,
                     labels=("second-listing",) if not first else ("first-listing",))
            judge(sch.display, token, sch.start_time, mask, case, "C13/display" + ("/second-listing" if not first else ""))
            if first and case.get("edit_days"):
                # the caller works on the day set it was handed (to derive another schedule from it): its business only
                try:
                    from aioswitcher.schedule import Days
                    sch.days.update(Days) if case["edit_days"] == "fill" else sch.days.clear()
                except Exception:
                    pass
        first = False


def body_succession(rep, case):
    """Two readings less than a second apart that straddle the start minute or local midnight: each text must be right for
    its own instant (a clock reading that is reused for "about a second" is a day or a week off here)."""
    Days, tools = _lib()
    zname, mask, start_min = case["zone"], case["mask"], case["start"]
    days = {x for x in Days if mask & x.bit_rep}
    start = hhmm(start_min)
    for k, now in enumerate(case["instants"]):
        y, mo, d, h, mi, s, micro = now
        with vclock.frozen(zname, y, mo, d, h, mi, s, micro=micro):
            weekday = dt.date(y, mo, d).weekday()
            token = expected_token(weekday, h * 60 + mi, mask, start_min)
            rep.tick("quick-succession", key=(zname, tuple(now), mask, start_min), nontrivial=k > 0, sample=case if k else None,
                     labels=(case["what"],))
            text = tools.pretty_next_run(start, days)
            judge(text, token, start, mask, dict(case, failing_instant=k), "C13/quick-succession/" + case["what"])


def cases_succession():
    out = []
    for zname in ("UTC", "Asia/Jerusalem", "America/New_York", "Pacific/Kiritimati"):
        for (y, mo, d) in ((2024, 1, 15), (2024, 1, 14), (2024, 3, 31), (2024, 11, 3)):
            wd = dt.date(y, mo, d).weekday()
            today, tomorrow = 1 << (wd + 1), 1 << ((wd + 1) % 7 + 1)
            nxt = dt.date(y, mo, d) + dt.timedelta(days=1)
            for mask in (today, today | tomorrow, 0xFE, tomorrow, today | (1 << ((wd + 3) % 7 + 1))):
                for start_min in (1, 390, 720, 1020, 1439):
                    h, mi = divmod(start_min - 1, 60)
                    out.append({"zone": zname, "mask": mask, "start": start_min, "what": "across-the-start-minute",
                                "instants": [[y, mo, d, h, mi, 59, 600_000], [y, mo, d, start_min // 60, start_min % 60, 0, 300_000],
                                             [y, mo, d, start_min // 60, start_min % 60, 0, 900_000]]})
                for start_min in (0, 390, 1020):
                    out.append({"zone": zname, "mask": mask, "start": start_min, "what": "across-midnight",
                                "instants": [[y, mo, d, 23, 59, 59, 600_000], [nxt.year, nxt.month, nxt.day, 0, 0, 0, 300_000]]})
    return out


def strat_repoll():
    def mk(z, day, s1, gap_min, mask, start, bad):
        t1 = dt.datetime(day.year, day.month, day.day) + dt.timedelta(seconds=s1)
        t2 = t1 + dt.timedelta(minutes=gap_min)
        return dict({"zone": z, "bad_between": bad, "now1": [t1.year, t1.month, t1.day, t1.hour, t1.minute, t1.second],
                     "now2": [t2.year, t2.month, t2.day, t2.hour, t2.minute, t2.second], "mask": mask * 2, "start": start},
                    **({"edit_days": ["fill", "clear"][s1 % 2]} if gap_min % 3 == 0 else {}))
    return st.builds(mk, st.sampled_from(["UTC", "Asia/Jerusalem", "America/New_York", "Asia/Kathmandu"]),
                     st.dates(dt.date(2024, 1, 8), dt.date(2024, 2, 20)), st.integers(0, 86399),
                     st.one_of(st.integers(1, 180), st.integers(1, 8 * 1440)), st.integers(1, 127), st.integers(0, 1439), st.booleans())


def cases_dst_midnight(tier):
    """Local clocks in the hour before / after midnight on the day before / of / after a UTC-offset change: 'tomorrow' is
    the next *calendar* day, not 'in 24 hours'."""
    def gen_cases():
        out = []
        zones = ["America/New_York", "Asia/Jerusalem", "Europe/London", "Australia/Lord_Howe", "America/Havana", "America/Sao_Paulo"]
        for z in zones:
            trans = [t for t in vclock.transition_days(z) if (2023 <= t.year <= 2025 if tier != "thorough" else 2015 <= t.year <= 2030)]
            for t in trans:
                for delta in (-1, 0, 1):
                    day = t + dt.timedelta(days=delta)
                    for (h, mi, s) in ((23, 0, 0), (23, 30, 30), (23, 59, 59), (0, 0, 0), (0, 30, 0), (0, 59, 30), (1, 30, 0), (2, 30, 0)):
                        out.append({"zone": z, "day": [day.year, day.month, day.day], "hms": [h, mi, s]})
        return out
    return gen_cases


def body_dst_midnight(rep, case):
    if "mask" in case:
        return body_random(rep, case)
    y, mo, d = case["day"]
    h, mi, s = case["hms"]
    z = vclock.zone(case["zone"])
    naive = dt.datetime(y, mo, d, h, mi, s)
    if dt.datetime.fromtimestamp(naive.replace(tzinfo=z).timestamp(), z).replace(tzinfo=None) != naive:
        rep.label("now-in-dst-gap-skipped")
        return
    for mask in range(2, 256, 2):
        for start in (10, 12 * 60, 23 * 60 + 50):
            if (mask + start) % 3 and bin(mask).count("1") > 2:
                continue
            body(rep, {"zone": case["zone"], "now": [y, mo, d, h, mi, s], "mask": mask, "start": start}, "dst-midnight")


def strat_subsecond():
    """The clock a fraction of a second before (or after) the start minute: still ahead means still 'today'."""
    def mk(z, day, start, before, micro, mask_extra):
        t = dt.datetime(day.year, day.month, day.day, start // 60, start % 60) - dt.timedelta(seconds=1 if before else 0)
        if not before:
            micro = micro % 400_000
        wd = dt.date(t.year, t.month, t.day).weekday()
        mask = (1 << (wd + 1)) | (mask_extra * 2)
        return {"zone": z, "now": [t.year, t.month, t.day, t.hour, t.minute, t.second, micro], "mask": mask & 0xFE, "start": start}
    return st.builds(mk, st.sampled_from(["UTC", "America/New_York", "Asia/Jerusalem"]), st.dates(dt.date(2024, 1, 8), dt.date(2024, 2, 20)),
                     st.integers(1, 1439), st.booleans(), st.integers(1, 999_999), st.integers(0, 127))


def strat_random():
    return st.builds(
        lambda z, day, now_s, mask, start, via: {
            "zone": z, "now": [day.year, day.month, day.day, now_s // 3600, now_s // 60 % 60, now_s % 60],
            "mask": mask * 2, "start": start, "via_schedule": via},
        st.sampled_from(vclock.ZONES),
        st.dates(dt.date(2000, 1, 2), dt.date(2099, 12, 30)),
        st.integers(0, 86399), st.integers(0, 127), st.integers(0, 1439), st.booleans(),
    )


def body_random(rep, case):
    # a 'now' inside a DST gap does not exist: skip by checking the frozen instant maps back to the same wall time
    z = vclock.zone(case["zone"])
    y, mo, d, h, mi, s = case["now"]
    naive = dt.datetime(y, mo, d, h, mi, s)
    aware = naive.replace(tzinfo=z)
    if dt.datetime.fromtimestamp(aware.timestamp(), z).replace(tzinfo=None) != naive:
        rep.label("now-in-dst-gap-skipped")
        return
    body(rep, case, "random")


def subchecks(tier):
    big = tier == "thorough"
    return [
        Sub("grid", body_grid, cases=cases_grid(tier), shards=16, exhaustive=True),
        Sub("random", body_random, strategy=strat_random, n=400_000 if big else 4000, shards=16 if big else 4),
        Sub("dst-midnight", body_dst_midnight, cases=cases_dst_midnight(tier), shards=16, exhaustive=True),
        Sub("subsecond", lambda rep, case: body(rep, case, "subsecond"), strategy=strat_subsecond, n=60_000 if big else 1500,
            shards=8 if big else 2),
        Sub("quick-succession", body_succession, cases=cases_succession, shards=4, exhaustive=True),
        Sub("repoll", body_repoll, strategy=strat_repoll, n=100_000 if big else 2500, shards=16 if big else 4),
    ]
