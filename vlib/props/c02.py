"""C02 - each operation's frame encodes exactly that operation and the caller's arguments."""
import datetime as dt

from hypothesis import strategies as st

from .. import gen, vclock
from ..engine import Sub, Violation
from ..fake import env, net, ops
from ..ref import wire

PROP = "C02"
LEVEL = "exploration"
DESIGN_REF = "DESIGN.md section 3, C02"
TECHNIQUE = "Hypothesis-generated accepted and rejected arguments through the public API against the fake device; captured command frame compared byte-for-byte with an independent reference encoder (byte tables pinned to the 8 literal test signatures); exhaustive day-set x start-minute sweep in thorough"
LEVEL_TEXT = ("For the 8 type-1 operations and the 3 shutter operations every captured frame (login and command) must equal the "
              "frame the reference layout builds from the caller's arguments, so op code, every argument field and every fixed "
              "byte are compared at once; arguments outside the accepted domain must raise with only the login frame on the wire. "
              "Sampling of the argument space (boundary-biased) plus an exhaustive 128 x 1440 create_schedule sweep in thorough.")
RULE = ("case = (operation, arguments, device id, key, session, time, zone); accepted cases compare frames byte-for-byte, "
        "rejected cases (timer >= 2^32 s, timedelta outside [1h,24h), names < 2 chars or > 32 bytes, malformed clock, duplicate "
        "days) must raise and write no command frame. Non-trivial = accepted case with a non-default argument or any "
        "rejected case; distinct by (kind, arguments)."
        ' Also: create_schedule on the day before/of/after every UTC-offset change of 7 host zones, exhaustive small domains (positions 0..100, slots 0..7, boundary minutes and auto-shutdown values), host zones for every operation.')
ASSUMPTIONS = [
    "reference byte tables (ref/wire.py): 6 templates pinned by the repository's 8 literal CRC test vectors, the other 9 are a golden layout transcribed once from the pinned commit",
    "a one-character name that needs >= 2 bytes, clock strings with extra components and negative minutes are left unspecified",
    "times that do not exist today in the host zone (DST gap) are skipped",
]

FIELDS = [(0, 2, "magic"), (2, 4, "length"), (4, 6, "proto"), (6, 8, "op-code"), (8, 12, "session"), (12, 14, "control-word"),
          (14, 24, "header-fixed"), (24, 28, "timestamp"), (28, 38, "header-zero"), (38, 40, "terminator"), (40, 43, "device-id"),
          (43, 79, "padding")]


def diff_field(exp, got):
    if len(exp) != len(got):
        return "frame-length"
    for i, (a, b) in enumerate(zip(exp, got)):
        if a != b:
            if i >= len(exp) - 4:
                return "signature"
            for lo, hi, name in FIELDS:
                if lo <= i < hi:
                    return name
            return "arguments"
    return None


def expected_frames(case):
    """List of acceptable byte strings per frame position, or None when unspecified."""
    kind, a = case["kind"], case["args"]
    base = {"device_id": case["device_id"], "session": case["session"], "ts": case["ts"]}
    if ops.api_type(kind) == 1:
        login = wire.build("login1", {"key": case["key"], "ts": case["ts"]})
    else:
        login = wire.build("login2", {"device_id": case["device_id"], "ts": case["ts"]})
    fk = ops.FRAMES[kind][0]
    if kind in ("control_on", "control_off"):
        m = a.get("minutes", 0)
        args = [dict(on=kind == "control_on", timer_seconds=60 * m if m > 0 else 0)]
    elif kind == "set_auto_shutdown":
        total = a["seconds"]
        args = [dict(seconds=60 * (total // 60))]
    elif kind == "set_device_name":
        args = [dict(name=a["name"])]
    elif kind == "delete_schedule":
        args = [dict(slot=int(a["slot"], 16))]
    elif kind == "create_schedule":
        zname = case.get("zone", "UTC")
        today = vclock.wall(zname, case["ts"]).date()
        sh, sm = map(int, a["start"].split(":"))
        eh, em = map(int, a["end"].split(":"))
        cs = vclock.candidates(zname, today, sh, sm)
        ce = vclock.candidates(zname, today, eh, em)
        if not cs or not ce:
            return None
        mask = sum(1 << (gen.DAY_NAMES.index(d) + 1) for d in (a.get("days") or []))
        args = [dict(mask=mask, start=s, end=e) for s in sorted(cs) for e in sorted(ce)]
    elif kind == "set_position":
        args = [dict(position=a.get("position", 0))]
    else:
        args = [dict()]
    return [[login], [wire.build(fk, dict(base, **x)) for x in args]]


async def exchange(case):
    dev = await env.device()
    kind, a = case["kind"], case["args"]
    cl = ops.Client(dev, ops.api_type(kind), case["device_id"], f"{case['key']:02x}")
    await cl.connect()
    try:
        dev.set_script(ops.good_script(kind, a, case["session"], salt=case.get("salt", 1)))
        with vclock.frozen_epoch(case.get("zone", "UTC"), case["ts"]):
            status, res = await cl.call(kind, a)
        return status, res, list(cl.conn.frames)
    finally:
        await cl.close()


def body_accept(rep, case, sub=None):
    kind = case["kind"]
    sub = sub or f"accept/{kind}"
    exp = expected_frames(case)
    if exp is None:
        rep.label("nonexistent-local-time-skipped")
        return
    status, res, frames = net.run(exchange(case))
    a = case["args"]
    nondefault = bool(a) and a not in ({"minutes": 0}, {"position": 0})
    rep.tick(sub, key=(kind, a, case["device_id"]), nontrivial=nondefault, sample=case, labels=(f"op={kind}",))
    if status != "ok":
        raise Violation(f"C02/accepted-arguments-fail/op={kind}/{type(res).__name__ if res else status}", case,
                        "frames written, response returned", f"{status}: {res!r}")
    if len(frames) != 2:
        raise Violation(f"C02/frame-count/op={kind}", case, 2, [f.hex() for f in frames])
    for i, (got, alts) in enumerate(zip(frames, exp)):
        if got in alts:
            continue
        field = diff_field(alts[0], got)
        which = "login-frame" if i == 0 else "command-frame"
        raise Violation(f"C02/{which}-mismatch/op={kind}/{field}", case, alts[0].hex(), got.hex())


def body_reject(rep, case):
    kind = case["kind"]
    status, res, frames = net.run(exchange(case))
    rep.tick(f"reject/{case['why']}", key=(kind, case["args"]), nontrivial=True, sample=case, labels=(f"reject={case['why']}",))
    if status == "ok":
        raise Violation(f"C02/rejected-arguments-accepted/{case['why']}", case, "an exception, no command frame",
                        {"frames": [f.hex() for f in frames]})
    if status == "timeout":
        raise Violation(f"C02/rejected-arguments-hang/{case['why']}", case, "an exception", "timeout")
    # the call may refuse before or after logging in: what must not appear is anything but a login frame
    login = ops.login_kind(kind)
    if len(frames) > 1 or any(len(f) < 44 or wire.classify(f) != login for f in frames):
        raise Violation(f"C02/command-frame-written-for-rejected-arguments/{case['why']}", case, "at most the login frame",
                        [f.hex() for f in frames])


# -- strategies ------------------------------------------------------------------------------

ZONES = st.sampled_from(["UTC", "UTC", "UTC", "Asia/Jerusalem", "America/New_York", "Asia/Kathmandu", "Pacific/Kiritimati"])


def common(kind, args_strategy, extra=None):
    def mk(a, dev_id, key, sess, ts, salt, zone):
        c = {"kind": kind, "args": a, "device_id": dev_id, "key": key, "session": sess, "ts": ts, "salt": salt}
        c["zone"] = zone        # the host zone matters for create_schedule only; every other frame must not depend on it
        if extra:
            c.update(extra)
        return c
    return st.builds(mk, args_strategy, gen.device_ids, gen.keys_int, gen.sessions, gen.timestamps, st.integers(1, 200), ZONES)


C02_KINDS = ops.KINDS1 + ["stop", "set_position", "get_shutter_state"]


def strat_accept(kind):
    return lambda: common(kind, gen.op_args(kind))


def strat_schedule_dst():
    """create_schedule called on the day before / of / after a UTC-offset change of the host zone."""
    from .c10 import date_pool
    pool = [t for t in date_pool("quick") if t[0] != "UTC"]

    def for_date(t):
        z, (y, mo, d), near = t
        def mk(a, dev_id, key, sess, now_s, salt):
            naive = dt.datetime(y, mo, d, now_s // 3600, now_s // 60 % 60, now_s % 60)
            ts = int(naive.replace(tzinfo=vclock.zone(z)).timestamp())
            return {"kind": "create_schedule", "args": a, "device_id": dev_id, "key": key, "session": sess, "ts": ts, "salt": salt,
                    "zone": z, "near": near}
        return st.builds(mk, gen.op_args("create_schedule"), gen.device_ids, gen.keys_int, gen.sessions,
                         st.sampled_from([30, 3 * 3600 + 15, 43200, 86370]), st.integers(1, 200))
    return st.sampled_from(pool).flatmap(for_date)


def strat_reject(why):
    def build():
        if why == "timer-beyond-32-bits":
            mins = st.one_of(st.integers(71_582_789, 71_582_800), st.integers(71_582_789, 2 ** 40),
                             st.sampled_from([71_582_789, 2 ** 32, 2 ** 32 // 60 + 1, 10 ** 12]))
            return common("control_on", mins.map(lambda m: {"minutes": m}), {"why": why})
        if why == "auto-shutdown-out-of-range":
            secs = st.one_of(st.integers(0, 3599), st.integers(86400, 2 * 86400), st.integers(3480, 3599),
                             st.integers(86400, 86520), st.sampled_from([0, 1, 59, 60, 3540, 3599, 86400, 86401, 90000]))
            return common("set_auto_shutdown", st.tuples(secs, st.integers(0, 999_999)).map(
                lambda t: {"seconds": t[0], "micros": t[1]}), {"why": why})
        if why == "name-too-short":
            nm = st.one_of(st.just(""), st.sampled_from(list(gen.ASCII)), st.sampled_from(["א", "é", "😀", "ß", "\u3000", "ñ"]))
            return common("set_device_name", nm.map(lambda n: {"name": n}), {"why": why})
        if why == "name-too-long":
            nm = gen.names(9, 40).filter(lambda s: len(s.encode("utf-8")) > 32) | st.sampled_from(
                ["x" * 33, "א" * 17, "😀" * 9, "é" * 17, "a" * 31 + "é", "ab" + "😀" * 8])
            return common("set_device_name", nm.map(lambda n: {"name": n}), {"why": why})
        if why == "malformed-clock":
            from .c11 import strat_malformed
            bad = strat_malformed().map(lambda d: d["text"])
            pair = st.one_of(st.tuples(bad, gen.clock), st.tuples(gen.clock, bad))
            return common("create_schedule", st.tuples(pair, gen.day_sets).map(
                lambda t: {"start": t[0][0], "end": t[0][1], "days": t[1], "days_form": "set"}), {"why": why})
        if why == "duplicate-days":
            seq = st.lists(st.sampled_from(gen.DAY_NAMES), min_size=2, max_size=9).filter(lambda s: len(set(s)) < len(s))
            return common("create_schedule", st.tuples(gen.clock, gen.clock, seq, st.sampled_from(["list", "tuple"])).map(
                lambda t: {"start": t[0], "end": t[1], "days": t[2], "days_form": t[3]}), {"why": why})
        raise KeyError(why)
    return build


REJECTS = ["timer-beyond-32-bits", "auto-shutdown-out-of-range", "name-too-short", "name-too-long", "malformed-clock",
           "duplicate-days"]


# -- exhaustive create_schedule sweep -----------------------------------------------------------

def body_sweep(rep, case):
    if "kind" in case:
        return body_accept(rep, case, "sweep/create_schedule")
    mask = case["mask"]
    days = [gen.DAY_NAMES[i] for i in range(7) if mask >> (i + 1) & 1]
    for start in range(case["lo"], case["hi"], case.get("step", 1)):
        end = (start + 1 + (start * 7 + mask) % 1439) % 1440
        one = {"kind": "create_schedule", "device_id": "a1b2c3", "key": 0x18, "session": "0a0b0c0d", "ts": 1_718_000_000,
               "zone": "UTC", "salt": 3,
               "args": {"start": f"{start // 60:02d}:{start % 60:02d}", "end": f"{end // 60:02d}:{end % 60:02d}",
                        "days": days if days else None, "days_form": "set"}}
        body_accept(rep, one, "sweep/create_schedule")


def cases_sweep(tier):
    def gen_cases():
        if tier == "thorough":
            return [{"mask": m, "lo": lo, "hi": lo + 240} for m in range(0, 256, 2) for lo in range(0, 1440, 240)]
        return [{"mask": m, "lo": (m * 5) % 60, "hi": 1440, "step": 60} for m in range(0, 256, 2)]
    return gen_cases


async def twice_same_days(case):
    from aioswitcher.schedule import Days
    dev = await env.device()
    cl = ops.Client(dev, 1, case["device_id"], f"{case['key']:02x}")
    await cl.connect()
    try:
        seq = [getattr(Days, n) for n in case["args"]["days"]]
        days = {"set": set, "frozenset": frozenset, "list": list, "tuple": tuple}[case["args"].get("days_form", "set")](seq)
        out = []
        with vclock.frozen_epoch(case.get("zone", "UTC"), case["ts"]):
            for i in range(case.get("repeat", 2)):
                if case.get("edit") and i == case.get("repeat", 2) - 1:
                    # the caller edits its own collection in place and passes the same object again
                    member = getattr(Days, case["edit"])
                    if isinstance(days, set):
                        (days.discard if member in days and len(days) > 1 else days.add)(member)
                    elif isinstance(days, list):
                        if member in days and len(days) > 1:
                            days.remove(member)
                        elif member not in days:
                            days.append(member)
                n0 = len(cl.conn.frames)
                cl.conn.script.clear()
                cl.conn.script.extend(ops.good_script("create_schedule", case["args"], case["session"], salt=case.get("salt", 1) + i))
                try:
                    await cl.api.create_schedule(case["args"]["start"], case["args"]["end"], days)
                    status = "ok"
                except Exception as exc:  # noqa
                    status = f"{type(exc).__name__}: {exc}"
                await cl.settle()
                out.append((status, list(cl.conn.frames[n0:])))
        return out, [d.name for d in days]
    finally:
        await cl.close()


def body_twice(rep, case):
    """The caller keeps its `days` collection and passes the very same object to consecutive calls: each call must
    encode it in full (the library may not consume or edit the caller's argument)."""
    exp = expected_frames(dict(case, kind="create_schedule"))
    if exp is None:
        rep.label("nonexistent-local-time-skipped")
        return
    out, days_after = net.run(twice_same_days(case))
    rep.tick("same-days-object-twice", key=case, nontrivial=True, sample=case, labels=("edited-in-place-between-calls",) if case.get("edit") else ())
    want_after = list(case["args"]["days"])
    if case.get("edit") and case["args"].get("days_form", "set") in ("set", "list"):
        if case["edit"] in want_after and len(want_after) > 1:
            want_after.remove(case["edit"])
        elif case["edit"] not in want_after:
            want_after.append(case["edit"])
    if sorted(days_after) != sorted(want_after):
        raise Violation("C02/callers-days-argument-modified", case, sorted(want_after), sorted(days_after))
    exp_last = expected_frames(dict(case, kind="create_schedule", args=dict(case["args"], days=want_after))) if want_after != list(case["args"]["days"]) else exp
    for i, (status, frames) in enumerate(out):
        if i == len(out) - 1 and exp_last is not exp:
            if exp_last is None or status != "ok" or len(frames) != 2 or frames[1] not in exp_last[1]:
                raise Violation("C02/command-frame-mismatch/op=create_schedule/same-days-object-edited-in-place", case,
                                exp_last[1][0].hex() if exp_last else None, {"status": status, "frames": [f.hex() for f in frames]})
            continue
        if status != "ok" or len(frames) != 2 or frames[1] not in exp[1]:
            raise Violation("C02/command-frame-mismatch/op=create_schedule/same-days-object-call-" + str(i + 1), case,
                            exp[1][0].hex(), {"status": status, "frames": [f.hex() for f in frames]})


def strat_twice():
    return st.builds(lambda a, dev_id, key, sess, ts, salt, rpt: {"kind": "create_schedule", "args": a, "device_id": dev_id, "key": key,
                                                                  "session": sess, "ts": ts, "salt": salt, "zone": "UTC", "repeat": rpt},
                     gen.op_args("create_schedule").filter(lambda a: a.get("days")), gen.device_ids, gen.keys_int, gen.sessions,
                     gen.timestamps, st.integers(1, 100), st.integers(2, 3)).flatmap(
        lambda c: st.one_of(st.just(c), st.sampled_from(["MONDAY", "WEDNESDAY", "FRIDAY", "SUNDAY"]).map(lambda d: dict(c, edit=d))))


def cases_small():
    """Finite argument domains enumerated completely: positions 0..100, slots 0..7, on/off x boundary minutes."""
    base = {"device_id": "0a1b2c", "key": 0x5A, "session": "f1e2d3c4", "ts": 1_718_000_123, "salt": 5}
    out = [dict(base, kind="set_position", args={"position": p}) for p in range(101)]
    out += [dict(base, kind="delete_schedule", args={"slot": str(sl)}) for sl in range(8)]
    out += [dict(base, kind="control_on", args={"minutes": m}) for m in (0, 1, 2, 59, 60, 61, 255, 256, 1092, 1093, 65535, 65536,
                                                                          1118481, 71_582_787, 71_582_788)]
    out += [dict(base, kind="control_off", args={})]
    out += [dict(base, kind="set_auto_shutdown", args={"seconds": sec, "micros": 0}) for sec in
            list(range(3600, 3700, 7)) + list(range(86280, 86400, 7)) + [3600 + 60 * k for k in range(0, 1380, 37)]]
    return out


def subchecks(tier):
    big = tier == "thorough"
    n = 50_000 if big else 400
    shards = 16 if big else 1
    subs = [Sub(f"accept/{k}", body_accept, strategy=strat_accept(k), n=n if k not in ("get_state", "get_schedules", "stop", "get_shutter_state") else n // 5,
                shards=shards) for k in C02_KINDS]
    subs.append(Sub("accept/create_schedule@dst-days", lambda rep, case: body_accept(rep, case, "accept/create_schedule@dst-days"),
                    strategy=strat_schedule_dst, n=n, shards=shards))
    subs += [Sub(f"reject/{w}", body_reject, strategy=strat_reject(w), n=n // 2, shards=shards) for w in REJECTS]
    subs.append(Sub("same-days-object-twice", body_twice, strategy=strat_twice, n=20_000 if big else 300, shards=16 if big else 1))
    subs.append(Sub("sweep/create_schedule", body_sweep, cases=cases_sweep(tier), shards=16, exhaustive=big))
    subs.append(Sub("sweep/small-domains", lambda rep, case: body_accept(rep, case, "sweep/small-domains"), cases=cases_small,
                    shards=8, exhaustive=True))
    return subs
