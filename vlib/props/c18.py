"""C18 - the TCP client is connected exactly between connect and disconnect."""
import asyncio

from hypothesis import strategies as st
from hypothesis.stateful import RuleBasedStateMachine, initialize, precondition, rule

from ..engine import Sub, Violation, machine_guard
from ..fake import env, net, ops
from ..ref import replies
from . import c03

PROP = "C18"
LEVEL = "exploration"
DESIGN_REF = "DESIGN.md section 3, C18"
TECHNIQUE = "Hypothesis rule-based state machine (connect, successful operation, failing operation, disconnect, refused connect, async-context with and without a body exception) on one long-lived API object per run against the fake device; model = connected flag; invariants after every step on `connected`, the device's open-connection count and EOF observation"
LEVEL_TEXT = ("Action sequences of up to 30 steps are generated for both API types and applied to a real API object talking to the "
              "fake device over loopback TCP; after every step `connected` must equal the model, the device must hold exactly the "
              "connections the model says (so disconnect / context exit really delivered end-of-stream), refused connects must "
              "raise OSError and leave the client disconnected, body exceptions must propagate unchanged, and reconnects must work. "
              "Sequences are sampled and shrunk as a whole; replay files re-run the step list without Hypothesis.")
RULE = ("case = API type + step list over {connect, op_ok, op_raises(login EOF | rejected argument), disconnect, refused_connect, "
        "context_ok, context_body_raises}; non-trivial = contains a reconnect after a failure, a body exception or a refused "
        "connect; distinct by the step list."
        ' Context bodies may disconnect by hand before leaving (normally or through the exception). Further steps: idle (1 s .. 25 h of event-loop time under the harness-owned loop clock) and new_loop (the event loop is closed and a new one created while disconnected; the API object is kept). A separate sub-check opens 2..100 clients at once and disconnects them in a generated order. Body exceptions are drawn from 8 classes including OSError subclasses and CancelledError; a refused connection is also provoked through the async context (refused_context).')
ASSUMPTIONS = [
    "connect while already connected is not generated (undocumented); TCP resets are outside the fault alphabet",
    "the device observes end-of-stream when its reader returns b'' for that connection; waited for with loop turns plus a bounded real-time wait for kernel FIN delivery",
]


class Boom(Exception):
    pass


class BoomOS(OSError):
    pass


BODY_EXC = {"CancelledError": asyncio.CancelledError, "Boom": Boom, "RuntimeError": RuntimeError, "ValueError": ValueError, "OSError": BoomOS,
            "ConnectionResetError": ConnectionResetError, "TimeoutError": TimeoutError, "KeyError": KeyError}


OK_OPS = {1: ["get_state", "control_on", "get_schedules", "set_device_name"], 2: ["get_shutter_state", "set_position", "stop", "get_breeze_state"]}
BAD_ARGS = {1: ("set_auto_shutdown", {"seconds": 60}), 2: None}
STATE_Q = {1: "get_state", 2: "get_shutter_state"}


class Lifecycle:
    """The system under test + model; apply(step) performs one action and checks everything the statement says."""

    def __init__(self, typ):
        self.typ = typ
        self.trace = []
        self.model_connected = False
        self.poisoned = False
        self.dev = net.run(env.device())
        self.api = ops.make_api(typ, self.dev.ip, "a1b2c3", "18")
        self.port = 9957 if typ == 1 else 10000
        net.run(self._drain())
        self.base_open = self.dev.open

    async def _drain(self):
        await self.dev.wait_all_closed(turns=50) if self.dev.open == 0 else await self.dev.kill_connections()

    def case(self):
        return {"type": self.typ, "steps": list(self.trace)}

    def fail(self, sig, expected, observed):
        raise Violation(f"C18/{sig}", self.case(), expected, observed)

    # -- helpers ---------------------------------------------------------------------------
    async def _wait_open(self, want):
        for i in range(700):
            if self.dev.open == want:
                return True
            await asyncio.sleep(0 if i < 500 else 0.002)
        return self.dev.open == want

    async def _op(self, kind, args, script):
        self.dev.set_script(script)
        try:
            res = await asyncio.wait_for(ops.invoke(self.api, kind, args), 20)
            return ("ok", res)
        except asyncio.TimeoutError:
            return ("timeout", None)
        except Exception as exc:  # noqa
            return ("raise", exc)

    # -- actions ---------------------------------------------------------------------------
    def apply(self, step):
        self.trace.append(step)
        try:
            if step["action"] == "new_loop":
                # the program's first event loop is closed and a second one created (asyncio.run() called twice); the API
                # object is kept.  Only generated while disconnected.
                net.run(env.restart_on_new_loop_prepare(), timeout=60)
                net.new_loop()
                self.dev = net.run(env.device())
                self.base_open = self.dev.open
                net.run(self._invariants(step), timeout=60)
                return
            net.run(self._apply(step), timeout=60 + 2 * step.get("secs", 0))
            net.run(self._invariants(step), timeout=60)
        except asyncio.TimeoutError:
            import traceback, os
            if os.environ.get("VERIF_DEBUG"):
                traceback.print_exc()
            self.fail(f"step-hangs/{step['action']}", "step completes", "no completion within 60 s")

    async def _apply(self, step):
        a = step["action"]
        if a == "connect":
            try:
                await self.api.connect()
            except Exception as exc:
                self.fail("connect-raises", "connected", f"{type(exc).__name__}: {exc}")
            self.model_connected = True
            self.poisoned = False
        elif a == "op_ok":
            kind = OK_OPS[self.typ][step["n"] % 4]
            args = c03.CANON_ARGS[kind]
            st_, res = await self._op(kind, args, ops.good_script(kind, args, "0a0b0c0d"))
            if st_ != "ok":
                self.fail(f"good-operation-fails/{'after-reconnect' if self._reconnected() else 'first-connection'}",
                          "a response", f"{st_}: {res!r}")
        elif a == "op_raises":
            if step["how"] == "login-eof":
                kind = STATE_Q[self.typ]
                st_, res = await self._op(kind, {}, [{"eof": True}])
                self.poisoned = True
                if st_ != "raise" or not isinstance(res, RuntimeError):
                    self.fail("failing-operation-outcome", "RuntimeError", f"{st_}: {res!r}")
            else:
                if self.typ == 1:
                    kind, args = BAD_ARGS[1]
                    st_, res = await self._op(kind, args, [{"data": replies.login("0a0b0c0d")}])
                    if st_ != "raise":
                        self.fail("rejected-argument-accepted", "an exception", f"{st_}: {res!r}")
                else:
                    from aioswitcher.api.remotes import SwitcherBreezeRemote
                    remote = SwitcherBreezeRemote({"IRSetID": "ELEC7001", "OnOffType": 0, "IRWaveList": [
                        {"Key": "aa", "Para": "p", "HexCode": "AB"}]})
                    self.dev.set_script([{"data": replies.login("0a0b0c0d")}])
                    try:
                        await asyncio.wait_for(self.api.control_breeze_device(remote), 20)
                        self.fail("nothing-actionable-accepted", "RuntimeError", "returned")
                    except RuntimeError:
                        pass
        elif a == "idle":
            await net.idle(step["secs"])      # event-loop time passes (harness-owned clock), nothing else happens
        elif a == "disconnect":
            try:
                await self.api.disconnect()
            except Exception as exc:
                self.fail("disconnect-raises/" + ("connected" if self.model_connected else "not-connected"), "no exception",
                          f"{type(exc).__name__}: {exc}")
            self.model_connected = False
        elif a == "refused_connect":
            await self.dev.unlisten(self.port)
            try:
                try:
                    await asyncio.wait_for(self.api.connect(), 20)
                    outcome = "connected"
                except OSError:
                    outcome = "OSError"
                except Exception as exc:
                    outcome = f"{type(exc).__name__}: {exc}"
            finally:
                await self.dev.listen(self.port)
            if outcome != "OSError":
                self.fail("refused-connect-outcome", "OSError", outcome)
        elif a == "refused_context":
            await self.dev.unlisten(self.port)
            try:
                try:
                    async with self.api:
                        outcome = "entered"
                except OSError:
                    outcome = "OSError"
                except Exception as exc:
                    outcome = f"{type(exc).__name__}: {exc}"
            finally:
                await self.dev.listen(self.port)
            if outcome != "OSError":
                self.fail("refused-context-outcome", "OSError", outcome)
        elif a in ("context_ok", "context_body_raises"):
            try:
                async with self.api as inner:
                    if inner is not self.api:
                        self.fail("context-returns-other-object", "the api object", repr(inner))
                    if self.api.connected is not True:
                        self.fail("connected-flag/inside-context", True, self.api.connected)
                    if not await self._wait_open(self.base_open + 1):
                        self.fail("context-did-not-connect", 1, self.dev.open - self.base_open)
                    if step.get("disconnect_inside"):
                        # the body disconnects by hand; leaving the context afterwards is the "second disconnect"
                        await self.api.disconnect()
                        if self.api.connected is not False:
                            self.fail("connected-flag/after-disconnect-inside-context", False, self.api.connected)
                        if not await self._wait_open(self.base_open):
                            self.fail("device-connection-count/after-disconnect-inside-context", 0, self.dev.open - self.base_open)
                    if a == "context_body_raises":
                        raise BODY_EXC[step.get("exc", "Boom")](step.get("n", 0))
                    if not step.get("disconnect_inside"):
                        kind = OK_OPS[self.typ][step["n"] % 4]
                        args = c03.CANON_ARGS[kind]
                        st_, res = await self._op(kind, args, ops.good_script(kind, args, "0a0b0c0d"))
                        if st_ != "ok":
                            self.fail("good-operation-fails/in-context", "a response", f"{st_}: {res!r}")
            except Violation:
                raise
            except tuple(BODY_EXC.values()) as b:
                if a != "context_body_raises" or type(b) is not BODY_EXC[step.get("exc", "Boom")] or b.args != (step.get("n", 0),):
                    self.fail("body-exception-altered", step.get("exc", "Boom"), repr(b))
            except Exception as exc:
                self.fail("context-raises" + ("/after-disconnect-inside" if step.get("disconnect_inside") else ""),
                          "no exception" if a == "context_ok" else "Boom", f"{type(exc).__name__}: {exc}")
            else:
                if a == "context_body_raises":
                    self.fail("body-exception-swallowed", "Boom propagates", "no exception")
            self.model_connected = False
        else:
            raise KeyError(a)

    def _reconnected(self):
        return sum(1 for s in self.trace if s["action"] == "connect") > 1

    async def _invariants(self, step):
        got = self.api.connected
        if got is not self.model_connected:
            self.fail(f"connected-flag/after-{step['action']}", self.model_connected, got)
        want = self.base_open + (1 if self.model_connected else 0)
        if not await self._wait_open(want):
            self.fail(f"device-connection-count/after-{step['action']}",
                      {"open": want - self.base_open}, {"open": self.dev.open - self.base_open})

    def close(self):
        try:
            net.run(self.api.disconnect())
        except Exception:
            pass
        net.run(self._drain())


def nontrivial(steps):
    acts = [s["action"] for s in steps]
    failure_seen = False
    for a in acts:
        if a in ("op_raises", "refused_connect", "refused_context", "context_body_raises"):
            failure_seen = True
        if failure_seen and a in ("connect", "context_ok"):
            return True
    return "context_body_raises" in acts or "refused_connect" in acts or "new_loop" in acts


def body(rep, case):
    sysm = Lifecycle(case["type"])
    try:
        steps = case["steps"]
        rep.tick(f"type{case['type']}", key=case, nontrivial=nontrivial(steps), sample=case)
        for step in steps:
            sysm.apply(step)
    finally:
        sysm.close()


async def run_many(rep, case):
    """n API objects of one type connected at the same time, then disconnected in the given order: each disconnect must
    make the device see end-of-stream on exactly that client's connection, whatever else is open."""
    dev = await env.device()
    await dev.kill_connections()
    typ, n = case["type"], case["n"]
    base = dev.open
    clients = [ops.Client(dev, typ, f"{i + 1:06x}", "18") for i in range(n)]
    try:
        for i, cl in enumerate(clients):
            await cl.connect()
            if cl.api.connected is not True:
                raise Violation("C18/connected-flag/many-clients", case, True, cl.api.connected)
        if dev.open - base != n:
            raise Violation("C18/device-connection-count/many-clients/after-connect", case, n, dev.open - base)
        order = sorted(range(n), key=lambda i: (i * case["stride"] + case["shift"]) % n if case["stride"] else i)
        left = n
        for k, i in enumerate(order):
            cl = clients[i]
            await cl.api.disconnect()
            left -= 1
            if cl.api.connected is not False:
                raise Violation("C18/connected-flag/many-clients", case, False, cl.api.connected)
            for j in range(700):
                if cl.conn.client_eof:
                    break
                await asyncio.sleep(0 if j < 500 else 0.002)
            if not cl.conn.client_eof:
                raise Violation("C18/no-end-of-stream-after-disconnect/many-clients", case,
                                {"client": i, "eof_seen": True}, {"client": i, "eof_seen": False, "open_at_once": n})
        if dev.open - base != 0:
            raise Violation("C18/device-connection-count/many-clients/after-disconnect", case, 0, dev.open - base)
    finally:
        for cl in clients:
            await cl.close()
        await dev.kill_connections()


def body_many(rep, case):
    rep.tick("many-clients", key=case, nontrivial=case["n"] >= 2, sample=case, labels=(f"clients>={min(case['n'] // 32 * 32, 96)}",))
    net.run(run_many(rep, case), timeout=120)


def cases_many(tier):
    def gen_cases():
        out = []
        sizes = [2, 3, 17, 33, 64, 65, 66, 100] + ([128, 129, 200, 257, 300] if tier == "thorough" else [])
        for typ in (1, 2):
            for n in sizes:
                for stride, shift in ((0, 0), (1, n // 2), (7, 3)):
                    out.append({"type": typ, "n": n, "stride": stride if n % 7 else 1, "shift": shift})
        return out
    return gen_cases


def machine_factory(typ):
    sub_name = f"type{typ}"

    def factory(rep, new):
        ctl = {"fails": 0}

        class Machine(RuleBasedStateMachine):
            def __init__(self):
                super().__init__()
                self.sys = Lifecycle(typ)
                self.dead = [False]

            def do(self, step):
                machine_guard(rep, new, sub_name, self.dead, lambda: self.sys.apply(step), self.sys.case, ctl)

            @initialize(begin=st.sampled_from(["nothing", "connect", "connect", "refused_connect", "refused_context"]))
            def begin(self, begin):
                if begin != "nothing":
                    self.do({"action": begin})

            @precondition(lambda self: not self.sys.model_connected)
            @rule()
            def connect(self):
                self.do({"action": "connect"})

            @precondition(lambda self: self.sys.model_connected and not self.sys.poisoned)
            @rule(n=st.integers(0, 3))
            def op_ok(self, n):
                self.do({"action": "op_ok", "n": n})

            @precondition(lambda self: self.sys.model_connected and not self.sys.poisoned)
            @rule(how=st.sampled_from(["login-eof", "rejected-argument"]))
            def op_raises(self, how):
                self.do({"action": "op_raises", "how": how})

            @rule()
            def disconnect(self):
                self.do({"action": "disconnect"})

            @rule(secs=st.sampled_from([1, 61, 301, 3601, 90_000]))
            def idle(self, secs):
                self.do({"action": "idle", "secs": secs})

            @precondition(lambda self: not self.sys.model_connected)
            @rule()
            def new_loop(self):
                self.do({"action": "new_loop"})

            @precondition(lambda self: not self.sys.model_connected)
            @rule()
            def refused_connect(self):
                self.do({"action": "refused_connect"})

            @precondition(lambda self: not self.sys.model_connected)
            @rule()
            def refused_context(self):
                self.do({"action": "refused_context"})

            @precondition(lambda self: not self.sys.model_connected)
            @rule(n=st.integers(0, 3), inside=st.sampled_from([False, False, True]))
            def context_ok(self, n, inside):
                self.do(dict({"action": "context_ok", "n": n}, **({"disconnect_inside": True} if inside else {})))

            @precondition(lambda self: not self.sys.model_connected)
            @rule(n=st.integers(0, 3), exc=st.sampled_from(sorted(BODY_EXC)), inside=st.sampled_from([False, False, False, True]))
            def context_body_raises(self, n, exc, inside):
                self.do(dict({"action": "context_body_raises", "n": n, "exc": exc}, **({"disconnect_inside": True} if inside else {})))

            def teardown(self):
                steps = self.sys.trace
                rep.tick(sub_name, key=(typ, steps), nontrivial=nontrivial(steps), sample={"type": typ, "steps": steps},
                         labels=tuple(sorted({"has-" + s["action"] for s in steps})))
                self.sys.close()

        Machine.__name__ = f"C18Type{typ}"
        return Machine
    return factory


def subchecks(tier):
    big = tier == "thorough"
    return [Sub(f"type{t}", body, machine=machine_factory(t), n=30_000 if big else 800, steps=30, shards=8 if big else 4)
            for t in (1, 2)] + [Sub("many-clients", body_many, cases=cases_many(tier), shards=4, exhaustive=False)]
