"""C11 - clock times survive encoding and decoding in every time zone and on every date."""
import datetime as dt

from hypothesis import strategies as st

from .. import vclock
from ..engine import Sub, Violation

PROP = "C11"
LEVEL = "exploration"
DESIGN_REF = "DESIGN.md section 3, C11"
TECHNIQUE = "enumeration of all 1440 minutes x zones x dates (every DST-transition day +-1, year ends, leap days) under a virtual clock, differential against zoneinfo arithmetic; Hypothesis for arbitrary epochs, dates and malformed strings"
LEVEL_TEXT = ("time_to_hexadecimal_timestamp / hexadecimale_timestamp_to_localtime run under time_machine with the host zone "
              "switched per case and are compared with zoneinfo + aware datetime arithmetic (no libc in the oracle). "
              "Thorough walks every minute of every transition day +-1 of 16 zones 2015-2037 plus year ends/leap days; "
              "it samples, it does not prove all dates.")
RULE = ("case = (zone, local date, 'now' time of day, minute set); every minute HH:MM of the set is encoded and decoded; times "
        "that do not exist that day (DST gap) are counted as unspecified and skipped. Additional Hypothesis sub-checks: "
        "arbitrary epochs 0..2^32-1 decode to the zoneinfo wall time; random dates 1971..2105; malformed strings raise. "
        "Non-trivial = zone != UTC or date within one day of a transition; distinct by (zone, date, minute) / (zone, epoch) / string."
        " 'now' carries a sub-second part in two of three cases; malformed strings include digit separators, signs, inner/trailing blanks, a third digit, non-ASCII digits and a trailing line end. text-forms: the clock text as a str-subclass instance and as a (str, Enum) member."
        ' clock-moves-on: 2..7 encodings in one process while the host clock moves forward by 1 s .. 7 d from a moment around local midnight (labels count local-date changes inside one UTC day); each encoding is judged against the local date of its own moment.')
ASSUMPTIONS = [
    "time_machine freezes time.time/localtime/strftime and sets TZ+tzset for ZoneInfo destinations",
    "zoneinfo and glibc read the same system tz database",
    "a time inside a DST gap does not 'exist today': unspecified, skipped and counted",
]


def _tools():
    from aioswitcher.schedule import tools
    return tools


def hhmm(m):
    return f"{m // 60:02d}:{m % 60:02d}"


def minute_set(spec):
    if spec == "all":
        return range(1440)
    if isinstance(spec, list):
        return spec
    stride, extra = spec["stride"], spec.get("around", [])
    ms = set(range(0, 1440, stride))
    for c in extra:
        ms.update(m for m in range(c - 90, c + 91) if 0 <= m < 1440)
    ms.update([0, 1, 59, 60, 719, 720, 1380, 1438, 1439])
    return sorted(ms)


def body_roundtrip(rep, case, sub="roundtrip"):
    tools = _tools()
    zname = case["zone"]
    y, mo, d = case["date"]
    h, mi, s = case["now"][:3]
    micro = case["now"][3] if len(case["now"]) > 3 else 0     # the sub-second part of "now" must not leak into the result
    date = dt.date(y, mo, d)
    near = case.get("near_transition", False)
    nt = zname != "UTC" or near
    with vclock.frozen(zname, y, mo, d, h, mi, s, micro=micro) as dest:
        # the frozen instant must really be on that local date (a 'now' inside a gap moves forward, still same date)
        local_today = dest.astimezone(vclock.zone(zname)).date()
        for m in minute_set(case["minutes"]):
            cands = vclock.candidates(zname, local_today, m // 60, m % 60)
            one = {"zone": zname, "date": [y, mo, d], "now": [h, mi, s, micro], "minutes": [m]}
            if not cands:
                rep.label("nonexistent-skipped")
                continue
            rep.tick(sub, key=(zname, y, mo, d, m, h), nontrivial=nt, sample=one,
                     labels=("near-transition",) if near else ())
            text = hhmm(m)
            try:
                enc = tools.time_to_hexadecimal_timestamp(text)
            except Exception as exc:
                raise Violation("C11/encode-raises", one, sorted(cands), f"{type(exc).__name__}: {exc}")
            try:
                raw = bytes.fromhex(enc)
            except (ValueError, TypeError):
                raw = b""
            if len(raw) != 4:
                raise Violation("C11/encode-not-4-bytes", one, "8 hex digits", enc)
            val = int.from_bytes(raw, "little")
            if val not in cands:
                raise Violation("C11/encode-wrong-epoch" + ("/near-transition" if near else ""), one,
                                sorted(cands), val)
            back = tools.hexadecimale_timestamp_to_localtime(enc.encode())
            if back != text:
                raise Violation("C11/roundtrip", one, text, back)


def body_clock_moves(rep, case):
    """One process, one zone, the host's clock moving forward between encodings - across the local midnight, across the UTC
    midnight, across a week: every encoding is on the local date of ITS OWN moment ("on today's local date", "on any date")."""
    tools = _tools()
    zname, m = case["zone"], case["minute"]
    y, mo, d = case["date"]
    midnight = int(dt.datetime(y, mo, d, tzinfo=vclock.zone(zname)).timestamp())
    for k, off in enumerate(case["offsets"]):
        epoch = midnight + off
        with vclock.frozen_epoch(zname, epoch):
            today = vclock.wall(zname, epoch).date()
            cands = vclock.candidates(zname, today, m // 60, m % 60)
            one = dict(case, step=k)
            if not cands:
                rep.label("nonexistent-skipped")
                continue
            utc_day_same = k > 0 and (midnight + case["offsets"][k - 1]) // 86400 == epoch // 86400
            local_day_moved = k > 0 and vclock.wall(zname, midnight + case["offsets"][k - 1]).date() != today
            rep.tick("clock-moves-on", key=(zname, y, mo, d, m, off), nontrivial=k > 0, sample=one,
                     labels=("local-date-changed-within-one-UTC-day",) if utc_day_same and local_day_moved else
                            ("local-date-changed",) if local_day_moved else ("same-local-date",))
            try:
                enc = tools.time_to_hexadecimal_timestamp(hhmm(m))
                val = int.from_bytes(bytes.fromhex(enc), "little") if len(enc) == 8 else None
            except Exception as exc:
                raise Violation("C11/encode-raises/after-clock-moved", one, sorted(cands), f"{type(exc).__name__}: {exc}")
            if val not in cands:
                raise Violation("C11/encode-wrong-epoch/after-clock-moved" + ("/local-midnight-inside-one-UTC-day" if utc_day_same and local_day_moved else ""),
                                one, sorted(cands), val)
            back = tools.hexadecimale_timestamp_to_localtime(enc.encode())
            if back != hhmm(m):
                raise Violation("C11/roundtrip/after-clock-moved", one, hhmm(m), back)


def strat_clock_moves():
    steps = st.lists(st.sampled_from([1, 2, 59, 60, 600, 3599, 3600, 7200, 6 * 3600, 43200, 86399, 86400, 7 * 86400]), min_size=1, max_size=6)
    return st.builds(
        lambda z, day, first, steps, m: {"zone": z, "date": [day.year, day.month, day.day], "minute": m,
                                         "offsets": [first + sum(steps[:i]) for i in range(len(steps) + 1)]},
        st.sampled_from(vclock.ZONES), st.dates(dt.date(2001, 1, 2), dt.date(2037, 12, 1)),
        st.sampled_from([-7200, -3600, -61, -2, -1, 0, 1, 43200, 86398]), steps, st.integers(0, 1439))


def body_forms(rep, case):
    """The clock text handed over as a str-subclass instance / a (str, Enum) member: same encoding as the plain str."""
    from .. import gen
    tools = _tools()
    zname, m, form = case["zone"], case["minute"], case["form"]
    y, mo, d = case["date"]
    with vclock.frozen(zname, y, mo, d, 12, 0, 0) as dest:
        today = dest.astimezone(vclock.zone(zname)).date()
        cands = vclock.candidates(zname, today, m // 60, m % 60)
        if not cands:
            rep.label("nonexistent-skipped")
            return
        rep.tick("text-forms", key=(zname, y, mo, d, m, form), nontrivial=True, sample=case, labels=(f"form={form}",))
        try:
            enc = tools.time_to_hexadecimal_timestamp(gen.text_form(hhmm(m), form))
        except Exception as exc:
            raise Violation(f"C11/encode-raises/{form}", case, sorted(cands), f"{type(exc).__name__}: {exc}")
        try:
            val = int.from_bytes(bytes.fromhex(enc), "little") if len(enc) == 8 else None
        except (ValueError, TypeError):
            val = None
        if val not in cands:
            raise Violation(f"C11/encode-wrong-epoch/{form}", case, sorted(cands), enc)


def cases_forms():
    from .. import gen
    out = []
    for form in gen.TEXT_FORMS:
        for zi, zname in enumerate(vclock.QUICK_ZONES):
            for m in range(zi, 1440, 53):
                out.append({"zone": zname, "date": [2024, 6, 15], "minute": m, "form": form})
    return out


def body_decode(rep, case):
    tools = _tools()
    zname, epoch = case["zone"], case["epoch"]
    want = vclock.wall(zname, epoch).strftime("%H:%M")
    rep.tick("decode-any-epoch", key=(zname, epoch), nontrivial=zname != "UTC", sample=case)
    with vclock.frozen(zname, 2024, 6, 15, 12, 0, 0):
        got = tools.hexadecimale_timestamp_to_localtime(epoch.to_bytes(4, "little").hex().encode())
        got_upper = tools.hexadecimale_timestamp_to_localtime(epoch.to_bytes(4, "little").hex().upper().encode())
    if got != want or got_upper != want:
        raise Violation("C11/decode-mismatch", case, want, [got, got_upper])


def body_malformed(rep, case):
    tools = _tools()
    text = case["text"]
    rep.tick("malformed", key=text, nontrivial=True, sample=case)
    with vclock.frozen(case.get("zone", "UTC"), 2024, 6, 15, 12, 0, 0):
        try:
            out = tools.time_to_hexadecimal_timestamp(text)
        except Exception:
            return
    raise Violation("C11/malformed-accepted", case, "an exception", out)


# -- case generation --------------------------------------------------------------------

NOWS = [[0, 0, 30], [12, 0, 0, 600_000], [23, 59, 30, 999_999]]


def special_dates():
    return [(2024, 2, 28), (2024, 2, 29), (2024, 3, 1), (2023, 2, 28), (2023, 12, 31), (2024, 1, 1),
            (2038, 1, 19), (2038, 1, 20), (2100, 2, 28), (2100, 3, 1), (1971, 1, 2), (2105, 12, 31),
            # days whose ISO-week year differs from the calendar year (%G vs %Y), both directions
            (2024, 12, 30), (2024, 12, 31), (2025, 12, 29), (2026, 12, 31), (2027, 1, 1), (2027, 1, 3), (2021, 1, 1), (2021, 1, 3),
            (2022, 1, 2), (2032, 12, 27)]


def cases_roundtrip(tier):
    def gen():
        out = []
        # zones whose clocks change AT local midnight (the day has no 00:00-00:59, or has it twice) are in the quick tier too
        zones = vclock.ZONES if tier == "thorough" else list(vclock.QUICK_ZONES) + [z for z in ("America/Havana", "America/Santiago", "Africa/Cairo")
                                                                                    if z in vclock.ZONES and z not in vclock.QUICK_ZONES]
        for zname in zones:
            trans = vclock.transition_days(zname)
            if tier == "thorough":
                chosen = trans
            else:
                recent = [t for t in trans if 2023 <= t.year <= 2026]
                chosen = recent[:4]
            days = {}
            for t in chosen:
                for delta in (-1, 0, 1):
                    day = t + dt.timedelta(days=delta)
                    days[(day.year, day.month, day.day)] = True
            for sd in special_dates():
                days.setdefault(sd, False)
            for i, ((y, mo, d), near) in enumerate(sorted(days.items())):
                nows = NOWS if tier == "thorough" else [NOWS[i % 3]]
                for now in nows:
                    if tier == "thorough" or near:
                        minutes = "all"
                    else:
                        minutes = {"stride": 7}
                    out.append({"zone": zname, "date": [y, mo, d], "now": now, "minutes": minutes,
                                "near_transition": near})
        return out
    return gen


def strat_random_dates():
    return st.builds(
        lambda z, day, now, ms: {"zone": z, "date": [day.year, day.month, day.day], "now": now, "minutes": sorted(set(ms))},
        st.sampled_from(vclock.ZONES),
        st.dates(dt.date(1971, 1, 2), dt.date(2105, 12, 30)),
        st.sampled_from(NOWS),
        st.lists(st.integers(0, 1439), min_size=1, max_size=12),
    )


def strat_decode():
    epochs = st.one_of(st.integers(0, 2 ** 32 - 1), st.integers(1_400_000_000, 2_200_000_000),
                       st.sampled_from([0, 1, 59, 60, 86399, 86400, 2 ** 31 - 1, 2 ** 31, 2 ** 32 - 1]))
    return st.tuples(st.sampled_from(vclock.ZONES), epochs).map(lambda t: {"zone": t[0], "epoch": t[1]})


def strat_malformed():
    bad_hour = st.tuples(st.integers(24, 99), st.integers(0, 59)).map(lambda t: f"{t[0]}:{t[1]:02d}")
    bad_min = st.tuples(st.integers(0, 23), st.integers(60, 99)).map(lambda t: f"{t[0]:02d}:{t[1]}")
    letters = st.text("abcdefghijklmnopqrstuvwxyzABCXYZ", min_size=1, max_size=3)
    alpha = st.one_of(st.tuples(letters, st.integers(0, 59)).map(lambda t: f"{t[0]}:{t[1]:02d}"),
                      st.tuples(st.integers(0, 23), letters).map(lambda t: f"{t[0]:02d}:{t[1]}"))
    nocolon = st.one_of(st.just(""), st.integers(0, 2359).map(lambda n: f"{n:04d}"), letters,
                        st.tuples(st.integers(0, 23), st.integers(0, 59)).map(lambda t: f"{t[0]:02d}.{t[1]:02d}"),
                        st.tuples(st.integers(0, 23), st.integers(0, 59)).map(lambda t: f"{t[0]:02d}-{t[1]:02d}"))
    emptypart = st.one_of(st.integers(0, 59).map(lambda n: f":{n:02d}"), st.integers(0, 23).map(lambda n: f"{n:02d}:"),
                          st.just(":"))
    negative = st.one_of(st.integers(0, 59).map(lambda n: f"-1:{n:02d}"), st.integers(0, 23).map(lambda n: f"{n:02d}:-5"))
    hm = st.tuples(st.integers(0, 23), st.integers(0, 59))
    # strings int() would swallow but that are not HH:MM: digit separators, signs, inner/trailing blanks, a third digit,
    # non-ASCII digits, a trailing line end (a leading blank is tolerated by the code today and left unspecified)
    arabic = str.maketrans("0123456789", "٠١٢٣٤٥٦٧٨٩")
    sneaky = st.one_of(
        hm.map(lambda t: f"{t[0] // 10}_{t[0] % 10}:{t[1]:02d}"), hm.map(lambda t: f"{t[0]:02d}:{t[1] // 10}_{t[1] % 10}"),
        hm.map(lambda t: f"+{t[0]:02d}:{t[1]:02d}"), hm.map(lambda t: f"{t[0]:02d}:+{t[1]:02d}"), hm.map(lambda t: f"-0:{t[1]:02d}"),
        hm.map(lambda t: f"{t[0]:02d} :{t[1]:02d}"), hm.map(lambda t: f"{t[0]:02d}: {t[1]:02d}"), hm.map(lambda t: f"{t[0]:02d}:{t[1]:02d} "),
        hm.map(lambda t: f"0{t[0]:02d}:{t[1]:02d}"), hm.map(lambda t: f"{t[0]:02d}:0{t[1]:02d}"),
        hm.map(lambda t: f"{t[0]:02d}:{t[1]:02d}".translate(arabic)), hm.map(lambda t: f"{t[0]:02d}:{t[1]:02d}\n"),
        hm.map(lambda t: f"0x{t[0]:x}:{t[1]:02d}"), hm.map(lambda t: f"{t[0]:02d}:{t[1]:02d}.5"))
    return st.tuples(st.one_of(bad_hour, bad_min, alpha, nocolon, emptypart, negative, sneaky),
                     st.sampled_from(vclock.QUICK_ZONES)).map(lambda t: {"text": t[0], "zone": t[1]})


def subchecks(tier):
    big = tier == "thorough"
    return [
        Sub("roundtrip", body_roundtrip, cases=cases_roundtrip(tier), shards=16, exhaustive=False),
        Sub("random-dates", lambda rep, case: body_roundtrip(rep, case, "random-dates"), strategy=strat_random_dates,
            n=40_000 if big else 600, shards=16 if big else 2),
        Sub("clock-moves-on", body_clock_moves, strategy=strat_clock_moves, n=40_000 if big else 1200, shards=16 if big else 2),
        Sub("decode-any-epoch", body_decode, strategy=strat_decode, n=200_000 if big else 2500, shards=16 if big else 2),
        Sub("text-forms", body_forms, cases=cases_forms, shards=2),
        Sub("malformed", body_malformed, strategy=strat_malformed, n=20_000 if big else 800, shards=4 if big else 1),
    ]
