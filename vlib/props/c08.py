"""C08 - state replies are decoded into exactly what the device reported."""
from hypothesis import strategies as st

from .. import gen, vclock
from ..engine import Sub, Violation
from ..fake import env, net, ops
from ..ref import replies

PROP = "C08"
LEVEL = "exploration"
DESIGN_REF = "DESIGN.md section 3, C08"
TECHNIQUE = "round trip against an independent reference encoder: Hypothesis-generated field values are placed into state/login replies (layout pinned to the shipped captures), served by the fake device, and the objects returned by get_state / get_shutter_state / get_breeze_state must report exactly those values"
LEVEL_TEXT = ("Every field of the three state replies and the login reply is generated over its whole stated domain with noisy "
              "neighbouring bytes, encoded by ref/replies.py (which reproduces the shipped capture bytes it owns), sent over "
              "loopback TCP, and compared field by field with the returned response object; the bulk part also feeds the "
              "response dataclasses directly. Sampling; no proof for unseen values.")
RULE = ("case = (reply kind, field values, noise salt, session); non-trivial = all multi-byte fields have pairwise different "
        "bytes (so endianness/offset slips are visible); distinct by the field tuple."
        ' Also: sequences of 2..8 replies of different kinds decoded in one process (mixed), 2..6 queries on one connection with some replies cut short or answered 4 s .. 1 h late under the harness-owned loop clock (api-history: whatever response object comes back, also after a late reply, must be what the device encoded for that very query), host zones other than UTC, field values 0xF0FE/0xFEF0, non-ASCII remote ids of <= 8 bytes; field-sweep: power (0..65535, on and off), the three time fields (0..86399), thermostat temperature (0..65535), target (0..255) and shutter position (0..255) walked through every value.')
ASSUMPTIONS = [
    "reply layout of DESIGN appendix A.2, pinned by get_state_response / get_breeze_state / get_shutter_state_response / login captures",
    "amps = watts/220 within 0.05 and rendered to one decimal; temperature = tenths/10 within 1e-9",
    "the host zone (UTC or one of 4 others under time_machine) must not influence the decoded values",
    "domains as stated: times 0..86399, power 0..65535, position 0..255, fan 0..3, swing 0..1, mode 1..5, remote id 1..8 ASCII characters",
]

FAN_NAMES = ["AUTO", "LOW", "MEDIUM", "HIGH"]
MODE_NAMES = {1: "AUTO", 2: "DRY", 3: "FAN", 4: "COOL", 5: "HEAT"}
DIR_NAMES = {"stop": "SHUTTER_STOP", "up": "SHUTTER_UP", "down": "SHUTTER_DOWN"}


def iso(s):
    return f"{s // 3600:02d}:{s // 60 % 60:02d}:{s % 60:02d}"


def distinct_bytes(n, width):
    b = int(n).to_bytes(width, "little")
    return len(set(b)) == width


def name_of(x):
    return getattr(x, "name", repr(x))


def expect(sig, case, field, want, got):
    if want != got:
        raise Violation(f"{sig}/{field}", case, {field: want}, {field: got})


def check_amps(sig, case, watts, amps):
    if not isinstance(amps, float) or abs(amps - watts / 220) > 0.05 + 1e-9 or abs(amps * 10 - round(amps * 10)) > 1e-6:
        raise Violation(f"{sig}/electric_current", case, round(watts / 220, 1), amps)


def judge(kind, f, case, resp, sig):
    if kind == "state1":
        expect(sig, case, "state", "ON" if f["on"] else "OFF", name_of(resp.state))
        expect(sig, case, "time_left", iso(f["time_left"]), resp.time_left)
        expect(sig, case, "time_on", iso(f["time_on"]), resp.time_on)
        expect(sig, case, "auto_shutdown", iso(f["auto_shutdown"]), resp.auto_shutdown)
        expect(sig, case, "power_consumption", f["power"], resp.power_consumption)
        check_amps(sig, case, f["power"], resp.electric_current)
    elif kind == "shutter":
        expect(sig, case, "position", f["position"], resp.position)
        expect(sig, case, "direction", DIR_NAMES[f["direction"]], name_of(resp.direction))
    elif kind == "thermostat":
        expect(sig, case, "state", "ON" if f["on"] else "OFF", name_of(resp.state))
        expect(sig, case, "mode", MODE_NAMES[f["mode"]], name_of(resp.mode))
        expect(sig, case, "fan_level", FAN_NAMES[f["fan"]], name_of(resp.fan_level))
        expect(sig, case, "swing", "ON" if f["swing"] else "OFF", name_of(resp.swing))
        expect(sig, case, "target_temperature", f["target"], resp.target_temperature)
        expect(sig, case, "remote_id", f["remote_id"], resp.remote_id)
        t = resp.temperature
        if not isinstance(t, (int, float)) or abs(t - f["temp_tenths"] / 10) > 1e-9:
            raise Violation(f"{sig}/temperature", case, f["temp_tenths"] / 10, t)
    if getattr(resp, "successful", None) is not True:
        raise Violation(f"{sig}/successful", case, True, getattr(resp, "successful", None))


def encode(kind, f, salt):
    if kind == "state1":
        return replies.state1(f["on"], f["power"], f["time_left"], f["time_on"], f["auto_shutdown"], salt=salt)
    if kind == "shutter":
        return replies.shutter(f["position"], f["direction"], salt=salt)
    return replies.thermostat(f["on"], f["mode"], f["fan"], f["swing"], f["temp_tenths"], f["target"], f["remote_id"], salt=salt)


def nontrivial(kind, f):
    if kind == "state1":
        return (distinct_bytes(f["power"], 2) and all(distinct_bytes(f[k], 4) or f[k] > 255 for k in ("time_left", "time_on", "auto_shutdown"))
                and len({f["time_left"], f["time_on"], f["auto_shutdown"]}) == 3)
    if kind == "thermostat":
        return distinct_bytes(f["temp_tenths"], 2) and f["target"] not in (f["temp_tenths"] & 255, f["temp_tenths"] >> 8)
    return f["position"] not in (0, 1)


API_OP = {"state1": "get_state", "shutter": "get_shutter_state", "thermostat": "get_breeze_state"}


async def via_api(case):
    dev = await env.device()
    kind = case["reply"]
    op = API_OP[kind]
    cl = ops.Client(dev, ops.api_type(op), case["device_id"], "18")
    await cl.connect()
    try:
        dev.set_script([{"data": replies.login(case["session"], case.get("login_len", 44), case["salt"])},
                        {"data": encode(kind, case["fields"], case["salt"])}])
        status, res = await cl.call(op, {})
        return status, res, list(cl.conn.frames)
    finally:
        await cl.close()


def body_api(rep, case):
    kind, f = case["reply"], case["fields"]
    zone = case.get("zone", "UTC")
    if zone != "UTC":
        rep.label("host-zone-not-utc")
        with vclock.frozen(zone, 2024, 7, 1, 12, 0, 0):
            status, res, frames = net.run(via_api(case))
    else:
        status, res, frames = net.run(via_api(case))
    rep.tick(f"api/{kind}", key=(kind, f), nontrivial=nontrivial(kind, f), sample=case, labels=(f"reply={kind}",))
    if status != "ok":
        raise Violation(f"C08/{kind}/well-formed-reply-not-parsed/{type(res).__name__ if res is not None else status}", case,
                        "a response object", f"{status}: {res!r}")
    judge(kind, f, case, res, f"C08/{kind}")
    # the login reply's session bytes are what the next frame carries at 8..12
    if len(frames) < 2 or frames[1][8:12].hex() != case["session"]:
        raise Violation("C08/login/session-bytes", case, case["session"], frames[1][8:12].hex() if len(frames) > 1 else None)


def body_direct(rep, case):
    # what the device encoded does not depend on where the host is: a third of the cases run in another host zone
    zone = case.get("zone", "UTC")
    if zone != "UTC":
        rep.label("host-zone-not-utc")
        with vclock.frozen(zone, 2024, 7, 1, 12, 0, 0):
            return _body_direct(rep, case)
    return _body_direct(rep, case)


def _body_direct(rep, case):
    from aioswitcher.api import messages
    kind, f = case["reply"], case["fields"]
    rep.tick(f"direct/{kind}", key=(kind, f, case["salt"]), nontrivial=True if kind == "login" else nontrivial(kind, f), sample=case,
             labels=(f"reply={kind}",))
    if kind == "login":
        data = replies.login(f["session"], f["length"], case["salt"])
        resp = messages.SwitcherLoginResponse(data)
        expect("C08/login", case, "session_id", f["session"], resp.session_id)
        return
    cls = {"state1": messages.SwitcherStateResponse, "shutter": messages.SwitcherShutterStateResponse,
           "thermostat": messages.SwitcherThermostatStateResponse}[kind]
    if kind == "state1" and case["salt"] % 2 == 0:
        # the same process listed schedules a moment ago whose durations equal this reply's time fields (a client polls both):
        # how a schedule's duration was rendered is none of a state reply's business
        recs = []
        for i, name in enumerate(("auto_shutdown", "time_left", "time_on")):
            dur = f[name] // 60 * 60
            recs.append((i, True, 0x02, 1, 1_700_000_000, 1_700_000_000 + dur, bytes(4)))
        try:
            messages.SwitcherGetSchedulesResponse(replies.schedules(recs))
            rep.label("after-listing-schedules-of-equal-durations")
        except Exception:
            pass
    resp = cls(encode(kind, f, case["salt"]))
    judge(kind, f, case, resp, f"C08/{kind}")


def body_mixed(rep, case):
    """Replies of different kinds decoded one after the other in one process (and on one connection per API type):
    what an earlier reply contained must not leak into a later one."""
    from aioswitcher.api import messages
    cls = {"state1": messages.SwitcherStateResponse, "shutter": messages.SwitcherShutterStateResponse,
           "thermostat": messages.SwitcherThermostatStateResponse}
    seq = case["replies"]
    rep.tick("mixed", key=case, nontrivial=len({r["reply"] for r in seq}) >= 2, sample=case,
             labels=(f"kinds={len({r['reply'] for r in seq})}",))
    for i, r in enumerate(seq):
        kind, f = r["reply"], r["fields"]
        one = {"replies": seq[:i + 1]}
        if kind == "login":
            resp = messages.SwitcherLoginResponse(replies.login(f["session"], f["length"], r["salt"]))
            expect("C08/login/after-other-replies", one, "session_id", f["session"], resp.session_id)
            continue
        resp = cls[kind](encode(kind, f, r["salt"]))
        judge(kind, f, one, resp, f"C08/{kind}/after-other-replies")


async def api_history(case):
    dev = await env.device()
    out = []
    clients = {}
    try:
        for q in case["queries"]:
            kind = q["reply"]
            op = API_OP[kind]
            typ = ops.api_type(op)
            if typ not in clients:
                clients[typ] = ops.Client(dev, typ, "a1b2c3", "18")
                await clients[typ].connect()
            cl = clients[typ]
            good = encode(kind, q["fields"], q["salt"])
            data = good[:q["cut"]] if q.get("cut") else good
            cl.conn.script.clear()
            script = [{"data": replies.login("0a0b0c0d", 44, q["salt"])}, {"data": data}]
            slow = q.get("slow")
            if slow:
                script[slow["step"] % 2]["sleep"] = slow["secs"]        # the right reply, late (event-loop time)
            cl.conn.script.extend(script)
            res = await cl.call(op, {}, timeout=40.0 + 2 * (slow["secs"] if slow else 0))
            if slow and res[0] != "ok":
                import asyncio
                await asyncio.sleep(slow["secs"] + 1)       # the client gave up: let the device finish its late answer
                await cl.settle()
            out.append(res)
        return out
    finally:
        for cl in clients.values():
            await cl.close()


def body_api_history(rep, case):
    """Several state queries on one connection per API type; some replies are cut short (those queries may raise
    RuntimeError); every well-formed reply, also right after a bad one, must decode exactly."""
    has_slow = any(q.get("slow") for q in case["queries"])
    if has_slow:
        with net.virtual_time():
            res = net.run(api_history(case))
    else:
        res = net.run(api_history(case))
    sub = case.get("sub", "api-history")
    rep.tick(sub, key=case, nontrivial=any(q.get("cut") or q.get("slow") for q in case["queries"][:-1]), sample=case,
             labels=(("has-malformed-reply",) if any(q.get("cut") for q in case["queries"]) else ()) + (("has-late-reply",) if has_slow else ()))
    for i, (q, (status, r)) in enumerate(zip(case["queries"], res)):
        one = {"queries": case["queries"][:i + 1]}
        kind = q["reply"]
        if q.get("cut"):
            continue       # C09's business
        after_bad = any(p.get("cut") for p in case["queries"][:i])
        after_slow = any(p.get("slow") for p in case["queries"][:i + 1])
        sig = f"C08/{kind}" + ("/after-late-reply" if after_slow else "/after-malformed-reply" if after_bad
                               else "/later-query-on-connection" if i else "")
        if status != "ok" and after_slow:
            # a client may give up on a late answer (and whatever follows on that connection may fail): no response object,
            # nothing to compare.  What IS returned must be what the device encoded for that very query.
            rep.label("no-response-after-late-reply")
            continue
        if status != "ok":
            raise Violation(f"{sig}/well-formed-reply-not-parsed/{type(r).__name__ if r is not None else status}", one,
                            "a response object", f"{status}: {r!r}")
        judge(kind, q["fields"], one, r, sig)


def strat_api_history():
    def q(k):
        slow = st.one_of(st.none(), st.none(), st.none(), st.builds(lambda step, secs: {"step": step, "secs": secs}, st.integers(0, 1),
                                                                      st.sampled_from([4, 6, 11, 31, 61, 3601])))
        return st.builds(lambda f, salt, cut, sl: dict({"reply": k, "fields": f, "salt": salt}, **({"cut": cut} if cut else {}),
                                                       **({"slow": sl} if sl and not cut else {})),
                         FIELDS[k], st.integers(1, 250), st.one_of(st.just(0), st.just(0), st.integers(1, 99)), slow)
    one = st.sampled_from(["state1", "shutter", "thermostat"]).flatmap(q)
    return st.lists(one, min_size=2, max_size=6).map(lambda qs: {"queries": qs})


def strat_mixed():
    one = st.sampled_from(["state1", "shutter", "thermostat", "login"]).flatmap(
        lambda k: st.builds(lambda f, salt: {"reply": k, "fields": f, "salt": salt}, FIELDS[k], st.integers(1, 250)))
    return st.lists(one, min_size=2, max_size=8).map(lambda seq: {"replies": seq})


# -- strategies -------------------------------------------------------------------------------
# 61694 = 0xF0FE and 65264 = 0xFEF0: field values whose bytes spell the frame magic / terminator
secs = st.one_of(st.integers(0, 86399), st.sampled_from([0, 1, 59, 60, 255, 256, 3599, 3600, 61694, 65264, 65535, 65536, 86399]))
power = st.one_of(st.integers(0, 65535), st.sampled_from([0, 1, 109, 110, 111, 219, 220, 255, 256, 2600, 61694, 65264, 65535]))
REMOTE_ALPHA = "ABCDEFGHIJKLMNOPQRSTUVWXYZ0123456789abcdefghijklmnopqrstuvwxyz_-"

FIELDS = {
    "state1": st.fixed_dictionaries({"on": st.booleans(), "power": power, "time_left": secs, "time_on": secs, "auto_shutdown": secs}),
    "shutter": st.fixed_dictionaries({"position": st.integers(0, 255), "direction": st.sampled_from(["stop", "up", "down"])}),
    "thermostat": st.fixed_dictionaries({
        "on": st.booleans(), "mode": st.integers(1, 5), "fan": st.integers(0, 3), "swing": st.integers(0, 1),
        "temp_tenths": st.one_of(st.integers(0, 65535), st.sampled_from([0, 255, 256, 281, 65535])), "target": st.integers(0, 255),
        "remote_id": st.one_of(st.text(REMOTE_ALPHA, min_size=1, max_size=8), st.text(REMOTE_ALPHA, min_size=1, max_size=8),
                               st.text(REMOTE_ALPHA + "ÉÖאבג", min_size=1, max_size=8).filter(lambda t: len(t.encode("utf-8")) <= 8))}),
    "login": st.fixed_dictionaries({"session": gen.sessions, "length": gen.login_lens}),
}


def strat(kind, api):
    def build():
        return st.builds(lambda f, salt, sess, dev_id, ll, z: {"reply": kind, "fields": f, "salt": salt, "session": sess,
                                                                "device_id": dev_id, "login_len": ll, "zone": z},
                         FIELDS[kind], st.integers(1, 250), gen.sessions, gen.device_ids, gen.login_lens,
                         st.sampled_from(["UTC", "UTC", "Asia/Jerusalem", "America/New_York", "Asia/Kathmandu", "Pacific/Kiritimati"]))
    return build


def body_sweep(rep, case):
    """One numeric field walked through EVERY value of its range (the other fields fixed): a reply parser has no business
    treating any single value specially, and the ranges are small enough to enumerate."""
    from aioswitcher.api import messages
    cls = {"state1": messages.SwitcherStateResponse, "shutter": messages.SwitcherShutterStateResponse,
           "thermostat": messages.SwitcherThermostatStateResponse}
    kind, field = case["reply"], case["field"]
    base = dict(case["base"])
    for v in range(case["lo"], case["hi"]):
        f = dict(base)
        f[field] = v
        if v % 257 == 0:
            rep.tick("field-sweep", key=(kind, field, v), nontrivial=True, sample={"reply": kind, "fields": f})
        resp = cls[kind](encode(kind, f, 1 + v % 200))
        judge(kind, f, {"reply": kind, "fields": f, "salt": 1 + v % 200}, resp, f"C08/{kind}/sweep-{field}")
    rep.label(f"swept:{kind}.{field}", case["hi"] - case["lo"])


def cases_sweep():
    out = []
    s1 = {"on": True, "power": 1500, "time_left": 600, "time_on": 3000, "auto_shutdown": 7200}
    th = {"on": True, "mode": 4, "fan": 2, "swing": 1, "temp_tenths": 231, "target": 24, "remote_id": "ELEC7001"}
    def chunks(kind, field, base, top, step):
        for lo in range(0, top, step):
            out.append({"reply": kind, "field": field, "base": base, "lo": lo, "hi": min(top, lo + step)})
    chunks("state1", "power", s1, 65536, 8192)
    chunks("state1", "power", dict(s1, on=False), 65536, 16384)
    for fld in ("time_left", "time_on", "auto_shutdown"):
        chunks("state1", fld, s1, 86400, 10800)
    chunks("thermostat", "temp_tenths", th, 65536, 8192)
    chunks("thermostat", "target", th, 256, 256)
    chunks("shutter", "position", {"position": 0, "direction": "up"}, 256, 256)
    return out


def subchecks(tier):
    big = tier == "thorough"
    subs = [Sub(f"api/{k}", body_api, strategy=strat(k, True), n=20_000 if big else 2000, shards=8 if big else 2)
            for k in ("state1", "shutter", "thermostat")]
    subs.append(Sub("api-history", body_api_history, strategy=strat_api_history, n=30_000 if big else 700, shards=8 if big else 2))
    subs.append(Sub("mixed", body_mixed, strategy=strat_mixed, n=100_000 if big else 1500, shards=8 if big else 2))
    subs.append(Sub("field-sweep", body_sweep, cases=cases_sweep, shards=8, exhaustive=True))
    subs += [Sub(f"direct/{k}", body_direct, strategy=strat(k, False), n=200_000 if big else 1500, shards=8 if big else 1)
             for k in ("state1", "shutter", "thermostat", "login")]
    return subs
