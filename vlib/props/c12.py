"""C12 - weekday sets and their one-byte mask are a bijection."""
import itertools

from hypothesis import strategies as st

from ..engine import Sub, Violation

PROP = "C12"
LEVEL = "exploration"
DESIGN_REF = "DESIGN.md section 3, C12"
TECHNIQUE = "exhaustive enumeration of the finite domain (all subsets x input forms, all masks, all sequences <=3) against a bit-arithmetic model, plus Hypothesis permutations/duplicate sequences"
LEVEL_TEXT = ("The whole stated domain is finite and enumerated: 127 subsets in 6 input forms, 7 single days, all 399 "
              "sequences of length <=3, all masks -2..257 and 510; Hypothesis adds permuted orders and longer "
              "duplicate-bearing sequences. Oracle: mask = sum 2^(weekday+1), decode = set of bits.")
RULE = (
    "every non-empty subset of the 7 days as set/frozenset/list/tuple (sorted and reversed) and single Days; all "
    "sequences of length <=3 (with duplicates -> must raise); empty inputs; every mask in -2..257 and 510; Hypothesis "
    "permutations and longer sequences with a duplicate. Non-trivial = subset with mask < 0x10 or >= 2 days, any "
    "rejected input, any decode; distinct by (form, days) or mask."
    " first-use-order: in freshly forked processes the encoder is used first (12 different first inputs) and then every mask is decoded, and the other way round."
)
ASSUMPTIONS = ["weekday order Monday=0 .. Sunday=6 and bit = 2^(weekday+1) as the statement gives (Monday 0x02 .. Sunday 0x80)"]

NAMES = ["MONDAY", "TUESDAY", "WEDNESDAY", "THURSDAY", "FRIDAY", "SATURDAY", "SUNDAY"]


def _lib():
    from aioswitcher.schedule import Days, tools
    return Days, tools


def day(i):
    Days, _ = _lib()
    return getattr(Days, NAMES[i])


def mask_of(idx):
    return sum(1 << (i + 1) for i in set(idx))


def build(form, idx):
    days = [day(i) for i in idx]
    if form == "single":
        return days[0]
    return {"set": set, "frozenset": frozenset, "list": list, "tuple": tuple, "dictkeys": lambda d: dict.fromkeys(d)}[form](days)


def body_encode(rep, case, sub="encode"):
    """case: {form, days: [weekday indices in the given order]}"""
    Days, tools = _lib()
    form, idx = case["form"], case["days"]
    arg = build(form, idx)
    dup = len(set(idx)) != len(idx)
    empty = len(idx) == 0
    must_raise = empty or (dup and form in ("list", "tuple"))
    m = mask_of(idx)
    nt = must_raise or m < 0x10 or len(set(idx)) >= 2
    rep.tick(sub, key=case, nontrivial=nt, sample=case,
             labels=(f"form={form}", "rejected" if must_raise else "accepted"))
    try:
        out = tools.weekdays_to_hexadecimal(arg)
    except Exception as exc:
        if must_raise:
            return
        raise Violation(f"C12/encode-raises/{form}", case, f"{m:02x}", f"{type(exc).__name__}: {exc}")
    if must_raise:
        raise Violation(f"C12/{'empty' if empty else 'duplicates'}-accepted/{form}", case, "an exception", out)
    if not (isinstance(out, str) and len(out) == 2 and out.lower() == f"{m:02x}"):
        raise Violation(f"C12/encode-mismatch/{form}", case, f"{m:02x}", out)
    if int(out, 16) & 1:
        raise Violation("C12/bit0-set", case, f"{m:02x}", out)
    back = tools.bit_summary_to_days(int(out, 16))
    want = {day(i) for i in set(idx)}
    if back != want or not isinstance(back, (set, frozenset)):
        raise Violation("C12/roundtrip", case, sorted(NAMES[i] for i in set(idx)), repr(back))


def cases_encode():
    out = []
    for r in range(1, 8):
        for comb in itertools.combinations(range(7), r):
            for form in ("set", "frozenset", "list", "tuple"):
                out.append({"form": form, "days": list(comb)})
            for form in ("list", "tuple"):
                out.append({"form": form, "days": list(reversed(comb))})
    for i in range(7):
        out.append({"form": "single", "days": [i]})
    for n in (1, 2, 3):
        for seq in itertools.product(range(7), repeat=n):
            for form in ("list", "tuple"):
                out.append({"form": form, "days": list(seq)})
    for form in ("set", "frozenset", "list", "tuple", "dictkeys"):
        out.append({"form": form, "days": []})
    return out


def strat_encode():
    uniq = st.lists(st.integers(0, 6), min_size=1, max_size=7, unique=True)
    anyseq = st.lists(st.integers(0, 6), min_size=4, max_size=10)
    return st.tuples(st.sampled_from(["list", "tuple"]), st.one_of(uniq, anyseq)).map(
        lambda t: {"form": t[0], "days": t[1]})


def body_decode(rep, case):
    Days, tools = _lib()
    m = case["mask"]
    valid = 2 <= m <= 254 and m % 2 == 0
    must_raise = m < 2 or m > 254
    rep.tick("decode", key=m, nontrivial=True, sample=case,
             labels=("even-valid" if valid else ("rejected" if must_raise else "odd-unspecified"),))
    try:
        out = tools.bit_summary_to_days(m)
    except Exception as exc:
        if valid:
            raise Violation("C12/decode-raises", case, "a set", f"{type(exc).__name__}: {exc}")
        return
    if must_raise:
        raise Violation("C12/decode-out-of-range-accepted", case, "an exception", repr(out))
    if valid:
        want = {day(i) for i in range(7) if m & (1 << (i + 1))}
        if out != want:
            raise Violation("C12/decode-mismatch", case, sorted(d.name for d in want), repr(out))
        # the caller owns the returned set: editing it must not change what a later decode of the same mask returns
        try:
            out.clear()
            out.add(day((m + 3) % 7))
        except AttributeError:
            pass
        again = tools.bit_summary_to_days(m)
        if again != want:
            raise Violation("C12/decode-not-repeatable-after-caller-mutation", case, sorted(d.name for d in want), repr(again))
        out = again
        enc = tools.weekdays_to_hexadecimal(out)
        if int(enc, 16) != m:
            raise Violation("C12/decode-encode", case, f"{m:02x}", enc)
    # odd masks 3..253: the statement (and the code's own TODO) leave them open: nothing asserted


def cases_decode():
    return [{"mask": m} for m in list(range(-2, 258)) + [510, 512, 65534]]


def body_enum(rep, case):
    """Days members carry exactly the statement's bits."""
    Days, _ = _lib()
    members = list(Days)
    rep.tick("days-enum", key="enum", nontrivial=True, sample={"members": [d.name for d in members]})
    if [d.name for d in members] != NAMES:
        raise Violation("C12/days-members", case, NAMES, [d.name for d in members])
    for i, d in enumerate(members):
        if d.bit_rep != 1 << (i + 1) or d.hex_rep != 1 << (i + 1) or d.weekday != i:
            raise Violation("C12/days-bits", {"day": d.name}, [1 << (i + 1), i], [d.bit_rep, d.hex_rep, d.weekday])


def body_first_use(rep, case):
    """Order of first use: in a FRESH process (fork) the encoder is used first with some day sets, then every mask is
    decoded - or the other way round.  Neither function may learn anything from what the other happened to see first."""
    import os
    import pickle
    Days, tools = _lib()
    r, w = os.pipe()
    pid = os.fork()
    if pid == 0:
        os.close(r)
        out = {"errors": []}
        try:
            def enc_all():
                for names in case["encode_first"]:
                    days = {getattr(Days, n) for n in names}
                    want = sum(1 << (list(Days).index(d) + 1) for d in days)
                    got = tools.weekdays_to_hexadecimal(days)
                    if not isinstance(got, str) or got.lower() != f"{want:02x}":      # upper- or lower-case digits: not stated
                        out["errors"].append(["encode", sorted(names), f"{want:02x}", got])

            def dec_all():
                for mask in range(2, 255, 2):
                    want = sorted(d.name for i, d in enumerate(Days) if mask >> (i + 1) & 1)
                    try:
                        got = sorted(d.name for d in tools.bit_summary_to_days(mask))
                    except Exception as exc:  # noqa
                        got = f"{type(exc).__name__}: {exc}"
                    if got != want:
                        out["errors"].append(["decode", mask, want, got])
            (enc_all(), dec_all()) if case["order"] == "encode-then-decode" else (dec_all(), enc_all())
        except BaseException as exc:  # noqa
            out["errors"].append(["crash", repr(exc)])
        try:
            os.write(w, pickle.dumps(out))
        finally:
            os._exit(0)
    os.close(w)
    data = b""
    while True:
        chunk = os.read(r, 65536)
        if not chunk:
            break
        data += chunk
    os.close(r)
    os.waitpid(pid, 0)
    out = pickle.loads(data) if data else {"errors": [["crash", "no report from the child"]]}
    rep.tick("first-use-order", key=case, nontrivial=True, sample=case, labels=(case["order"],))
    if out["errors"]:
        e = out["errors"][0]
        raise Violation(f"C12/{e[0]}-wrong-after-first-use/{case['order']}", dict(case, failing=e[1]), e[2] if len(e) > 2 else None,
                        e[3] if len(e) > 3 else e[1])


def cases_first_use():
    names = ["MONDAY", "TUESDAY", "WEDNESDAY", "THURSDAY", "FRIDAY", "SATURDAY", "SUNDAY"]
    firsts = [[[n]] for n in names] + [[["MONDAY", "FRIDAY"]], [["SUNDAY", "MONDAY"]], [names[:3]], [names], [["TUESDAY"], ["THURSDAY", "SATURDAY"]]]
    return [{"order": o, "encode_first": f} for o in ("encode-then-decode", "decode-then-encode") for f in firsts]


def subchecks(tier):
    extra = [Sub("first-use-order", body_first_use, cases=cases_first_use, shards=2, exhaustive=True)]
    big = tier == "thorough"
    return [
        Sub("encode", body_encode, cases=cases_encode, shards=4, exhaustive=True),
        Sub("decode", body_decode, cases=cases_decode, shards=1, exhaustive=True),
        Sub("days-enum", body_enum, cases=lambda: [{}], shards=1, exhaustive=True),
        Sub("encode-permuted", lambda rep, case: body_encode(rep, case, "encode-permuted"), strategy=strat_encode, n=100_000 if big else 3000, shards=8 if big else 1),
    ] + extra
