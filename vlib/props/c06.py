"""C06 - only genuine Switcher broadcasts are accepted; anything else is ignored quietly."""
from hypothesis import strategies as st

from ..engine import Sub, Violation
from ..fake import net, udptx
from ..ref import broadcast as refb
from .c09 import pattern

PROP = "C06"
LEVEL = "exploration"
DESIGN_REF = "DESIGN.md section 3, C06"
TECHNIQUE = "generated and enumerated datagrams sent to a running bridge over loopback UDP: every length 0..400 with/without the magic, truncated/extended real captures, random bytes (must be ignored silently) and every unknown two-byte model code inside gate-passing frames (must yield no device, no exception, an 'unknown' warning); oracle on callbacks, Python warnings, aioswitcher log records and the loop exception handler"
LEVEL_TEXT = ("Part (a): byte strings the gate must reject are sent in batches to a real bridge; zero callbacks, zero warnings, zero "
              "aioswitcher log records >= WARNING and zero loop-exception-handler calls are required. Lengths 0..400 x {magic, "
              "f0fe, fe00, 00f0, random prefix} are enumerated. Part (b): gate-passing frames of the three lengths with the model "
              "code replaced by unknown codes (all 65,527 in thorough) must produce no device, no exception and one 'unknown' "
              "warning each. Random content is sampled.")
RULE = ("case = batch of datagram specs (kind, length, prefix, pattern seed | capture index and cut | hex) or (base frame, model code); "
        "non-trivial (a) = length within +-3 of an accepted length or correct magic, (b) = all; distinct by (kind, length, prefix, code)."
        " Also enumerated: every single-byte extension (256 values) of a frame of each accepted length; junk of every length 0..400 that carries the magic, a header length field equal to its real length, a known model code and (every other one) a valid packet signature; all 'neighbour' model codes (byte-swapped, +-1, single-bit flips, single-byte variants of the nine known codes); junk before and after a silence of 61 s .. 25 h of event-loop time (harness-owned loop clock); 70 000 (thorough 300 000) rejected datagrams through one bridge (soak); unknown-model frames and junk read by the bridge while an API client of either type in the same loop is leaving its session, after state replies of every kind were decoded in the process (beside-an-api-client).")
ASSUMPTIONS = [
    "a warning counts when it is a Python warning or an aioswitcher log record >= WARNING whose text contains 'unknown' (case-insensitive)",
    "frames that pass the gate with a known model code but undecodable fields are outside this statement (C07 covers their isolation)",
]

PREFIXES = {"magic": b"\xfe\xf0", "f0fe": b"\xf0\xfe", "fe00": b"\xfe\x00", "00f0": b"\x00\xf0", "fef1": b"\xfe\xf1", "fff0": b"\xff\xf0"}
KNOWN = set(refb.MODELS)


def build(spec, caps):
    k = spec["kind"]
    if k == "len":
        n = spec["len"]
        body = pattern(max(n, 2), spec.get("seed", 0))
        pre = PREFIXES[spec["prefix"]] if spec["prefix"] in PREFIXES else bytes.fromhex(spec["prefix"])
        d = bytearray((pre + body[2:])[:n] if n >= 2 else (pre[:n]))
        if spec.get("header") and n >= 4:
            d[2:4] = (n & 0xFFFF).to_bytes(2, "little")     # the frame's own length field agrees with its real length
        if spec.get("model") and n >= 76:
            d[74:76] = bytes.fromhex(spec["model"])
        if spec.get("signed") and n >= 8:
            from ..ref import crc
            d[-4:] = crc.signature(bytes(d[:-4]))              # ... and it even carries a valid packet signature
        return bytes(d)
    if k == "cut":
        cap = caps[spec["capture"] % len(caps)][1]
        d = spec["delta"]
        if "ext" in spec:                       # a genuine frame followed by chosen extra bytes
            return cap + bytes.fromhex(spec["ext"])
        return cap[:d] if d < 0 else cap + pattern(d, spec.get("seed", 1))
    if k == "hex":
        return bytes.fromhex(spec["hex"])
    if k == "unknown":
        base = bytearray(base_frames(caps)[spec["base"] % len(base_frames(caps))])
        if spec.get("random_body"):
            n = len(base)
            base = bytearray(pattern(n, spec["random_body"]))
            base[0:2] = b"\xfe\xf0"
        base[74:76] = bytes.fromhex(spec["code"])
        return bytes(base)
    raise KeyError(k)


_BASES = None


def base_frames(caps):
    global _BASES
    if _BASES is None:
        by_len = {}
        for name, data in caps:
            if refb.gate(data):
                by_len.setdefault(len(data), data)
        ref = [
            refb.encode(dict(model="01a8", device_id="a1b2c3", key=7, name="plug", ip=[10, 1, 2, 3], mac=[1, 2, 3, 4, 5, 6], on=True,
                             power=1000, remaining=100, auto_shutdown=3600)),
            refb.encode(dict(model="0e01", device_id="a1b2c4", key=7, name="breeze", ip=[10, 1, 2, 4], mac=[1, 2, 3, 4, 5, 7], on=True,
                             mode=4, target=24, fan=1, swing=0, temp_tenths=251, remote_id="ELEC7001")),
            refb.encode(dict(model="0c01", device_id="a1b2c5", key=7, name="runner", ip=[10, 1, 2, 5], mac=[1, 2, 3, 4, 5, 8],
                             position=50, direction="up")),
        ]
        _BASES = [by_len[n] for n in sorted(by_len)] + ref
    return _BASES


def must_be_rejected(d):
    return not refb.gate(d)


def noise(rig):
    warns = rig.warnings_so_far()
    return {"callbacks": len(rig.callbacks), "python_warnings": warns[:3], "log_records": rig.log_records[:3],
            "loop_errors": rig.loop_errors[:3]}


def quiet(rig):
    return not rig.callbacks and not rig.warnings_so_far() and not rig.log_records and not rig.loop_errors


CALLBACK_FORMS = ["bound-method", "function", "partial", "unreferenced-owner", "falsy-callable"]


async def send_batch(datagrams, silence=None):
    rig = udptx.Rig(1)
    # whether anything is said about a datagram must not depend on the shape of the user's callback
    await rig.start(CALLBACK_FORMS[(len(datagrams) + sum(len(d) for d in datagrams[:3])) % len(CALLBACK_FORMS)])
    try:
        dead = None
        try:
            for i, d in enumerate(datagrams):
                if silence and i == silence[0]:
                    await rig.barrier()
                    await net.idle(silence[1])       # nothing arrives for a while (event-loop time, harness-owned clock)
                await rig.send(rig.ports[0], d)
        except udptx.DeliveryStopped as exc:
            dead = exc.ports
        if dead is None:
            dead = await rig.barrier()
        obs = noise(rig)
        obs["quiet"] = quiet(rig)
        obs["dead"] = dead
        obs["unknown_warnings"] = sum(1 for _, m in rig.warnings_so_far() if "unknown" in m.lower()) + \
            sum(1 for _, m in rig.log_records if "unknown" in m.lower())
        return obs
    finally:
        await rig.stop()


def body_reject(rep, case, sub="reject"):
    caps = refb.captures()
    specs = case["batch"]
    datagrams = []
    for s in specs:
        d = build(s, caps)
        if not must_be_rejected(d):
            rep.label("spec-passes-gate-skipped")
            continue
        datagrams.append((s, d))
        near = any(abs(len(d) - n) <= 3 for n in refb.ACCEPTED_LENGTHS)
        rep.tick(sub, key=(s.get("kind"), len(d), d[:2].hex(), s.get("seed"), s.get("ext"), s.get("capture"), s.get("header"), s.get("signed")),
                 nontrivial=near or d[:2] == b"\xfe\xf0",
                 sample={"batch": [s]}, labels=(f"kind={s['kind']}", "magic" if d[:2] == b"\xfe\xf0" else "no-magic",
                                                "accepted-length" if len(d) in refb.ACCEPTED_LENGTHS else "other-length"))
    if not datagrams:
        return
    obs = net.run(send_batch([d for _, d in datagrams]), timeout=120)
    if obs["dead"]:
        raise Violation("C06/reject/bridge-stops-delivering", case, "sentinel delivered", obs)
    if obs["quiet"]:
        return
    # slow path: find the first offender so the replay is one datagram
    for s, d in datagrams:
        o = net.run(send_batch([d]), timeout=60)
        if not o["quiet"]:
            what = ("callback" if o["callbacks"] else "loop-exception" if o["loop_errors"] else "warning")
            cls = ("magic" if d[:2] == b"\xfe\xf0" else "no-magic") + "/" + ("accepted-length" if len(d) in refb.ACCEPTED_LENGTHS else "other-length")
            raise Violation(f"C06/reject/{what}/{cls}", {"batch": [s]}, "ignored silently", dict(o, length=len(d), head=d[:4].hex()))
    raise Violation("C06/reject/noise-only-in-batch", case, "ignored silently", obs)


def body_silence(rep, case):
    """Junk, a long silence, junk again - and the same with gate-passing unknown-model frames: still nothing but the
    documented reaction."""
    caps = refb.captures()
    datagrams = [build(sp, caps) for sp in case["batch"]]
    datagrams = [d for d in datagrams if must_be_rejected(d)]
    rep.tick("after-silence", key=case, nontrivial=True, sample=case, labels=(f"silence={case['secs']}s",))
    obs = net.run(send_batch(datagrams, silence=(case["at"] % max(1, len(datagrams)), case["secs"])), timeout=120 + 2 * case["secs"])
    if obs["dead"]:
        raise Violation("C06/reject/bridge-stops-delivering/after-silence", case, "sentinel delivered", obs)
    if not obs["quiet"]:
        what = ("callback" if obs["callbacks"] else "loop-exception" if obs["loop_errors"] else "warning")
        raise Violation(f"C06/reject/{what}/after-silence", case, "ignored silently", obs)


def cases_silence():
    out = []
    kinds = [{"kind": "len", "len": 40, "seed": 1, "prefix": "00ff"}, {"kind": "len", "len": 165, "seed": 2, "prefix": "f0fe"},
             {"kind": "len", "len": 0, "seed": 3, "prefix": "fef0"}, {"kind": "len", "len": 160, "seed": 4, "prefix": "fef0", "header": True},
             {"kind": "cut", "capture": 0, "delta": -1}, {"kind": "cut", "capture": 1, "delta": 2, "seed": 6}]
    for secs in (61, 301, 3601, 90_000):
        for at in (1, 3, 5):
            out.append({"batch": kinds, "at": at, "secs": secs})
    return out


def body_soak(rep, case):
    """Very many rejected datagrams through ONE bridge in one process: silence must not wear out."""
    async def go():
        rig = udptx.Rig(1)
        rig.quiet_windows = True
        await rig.start()
        try:
            port = rig.ports[0]
            junk = [p for p in (pattern(n, n) for n in (165, 40, 168, 1, 159, 300)) if not refb.gate(p)]
            i = 0
            try:
                for i in range(case["n"]):
                    await rig.send(port, junk[i % len(junk)])
                    if i % 8192 == 8191 and (rig.warnings_so_far() or rig.loop_errors or rig.callbacks):
                        break
            except udptx.DeliveryStopped:
                return [port], noise(rig), quiet(rig), i + 1
            dead = await rig.barrier()
            return dead, noise(rig), quiet(rig), i + 1
        finally:
            await rig.stop()
    dead, obs, ok, sent = net.run(go(), timeout=1200)
    rep.tick("soak", key=case, nontrivial=True, sample=case, n=sent, labels=("soak",))
    if dead:
        raise Violation("C06/reject/bridge-stops-delivering/soak", case, "sentinel delivered", obs)
    if not ok:
        what = ("callback" if obs["callbacks"] else "loop-exception" if obs["loop_errors"] else "warning")
        raise Violation(f"C06/reject/{what}/soak", dict(case, sent=sent), "ignored silently", obs)


def body_unknown(rep, case, sub="unknown-model"):
    caps = refb.captures()
    if "codes" in case:
        specs = [{"kind": "unknown", "base": case["base"], "code": f"{c:04x}", "random_body": case.get("random_body", 0)}
                 for c in range(case["codes"][0], case["codes"][1]) if f"{c:04x}" not in KNOWN]
    else:
        specs = [s for s in case["batch"] if s["code"] not in KNOWN]
    if not specs:
        return
    datagrams = [build(s, caps) for s in specs]
    for s, d in zip(specs, datagrams):
        rep.tick(sub, key=(len(d), s["code"], s.get("random_body", 0)), nontrivial=True, sample={"batch": [s]},
                 labels=(f"len={len(d)}",))
    obs = net.run(send_batch(datagrams), timeout=300)
    ok = not obs["callbacks"] and not obs["loop_errors"] and not obs["dead"] and obs["unknown_warnings"] >= len(datagrams)
    if ok:
        return
    if obs["dead"]:
        raise Violation("C06/unknown-model/bridge-stops-delivering", case, "sentinel delivered", obs)
    for s, d in zip(specs, datagrams):
        o = net.run(send_batch([d]), timeout=60)
        if o["callbacks"]:
            raise Violation("C06/unknown-model/device-delivered", {"batch": [s]}, "no device", o)
        if o["loop_errors"]:
            raise Violation("C06/unknown-model/exception", {"batch": [s]}, "an 'unknown device' warning, no exception", o)
        if o["unknown_warnings"] < 1:
            raise Violation("C06/unknown-model/no-warning", {"batch": [s]}, "an 'unknown device' warning", o)
        if o["dead"]:
            raise Violation("C06/unknown-model/bridge-stops-delivering", {"batch": [s]}, "sentinel delivered", o)
    raise Violation("C06/unknown-model/only-in-batch", case, {"unknown_warnings": len(datagrams)}, obs)


async def beside_api(case):
    """The bridge is not alone in its event loop: an API client of each type talks to a (fake) device there too.  Unknown-model
    frames and junk are sent while such a client is leaving its session (frame queued, then `disconnect()` awaited) and after
    the library decoded state replies of every kind in this process."""
    from ..fake import env, ops
    from ..ref import replies
    from . import c03
    caps = refb.captures()
    dev = await env.device()
    rig = udptx.Rig(1)
    await rig.start()
    clients = []
    try:
        port = rig.ports[0]
        c1 = ops.Client(dev, 1, "a1b2c3", "18")
        c2 = ops.Client(dev, 2, "0d0e0f", "18")
        clients = [c1, c2]

        def unknown_count():
            return sum(1 for _, m in rig.warnings_so_far() if "unknown" in m.lower()) + sum(1 for _, m in rig.log_records if "unknown" in m.lower())
        steps = []
        for i, spec in enumerate(case["batch"]):
            cl = clients[i % 2]
            kind = ("get_state", "get_shutter_state", "get_breeze_state")[i % 3] if cl is c2 or i % 3 == 0 else "get_state"
            kind = kind if ops.api_type(kind) == cl.typ else ("get_state" if cl.typ == 1 else "get_shutter_state")
            await cl.connect()
            cl.conn.script.extend(ops.good_script(kind, c03.CANON_ARGS[kind], "0a0b0c0d", salt=1 + i))
            await cl.call(kind, c03.CANON_ARGS[kind])
            d = build(spec, caps)
            before = (unknown_count(), len(rig.callbacks), len(rig.loop_errors), len(rig.warnings_so_far()) + len(rig.log_records))
            rig.tx.sendto(d, ("127.0.0.1", port))           # queued for the bridge ...
            await cl.api.disconnect()                        # ... and read while the client is leaving its session
            dead = await rig.barrier()
            after = (unknown_count(), len(rig.callbacks), len(rig.loop_errors), len(rig.warnings_so_far()) + len(rig.log_records))
            steps.append({"spec": spec, "gate": refb.gate(d), "dead": dead, "unknown": after[0] - before[0], "callbacks": after[1] - before[1],
                          "loop_errors": rig.loop_errors[before[2]:][:2], "noise": after[3] - before[3]})
            if dead:
                break
        return steps
    finally:
        for cl in clients:
            await cl.close()
        await rig.stop()


def body_beside_api(rep, case):
    steps = net.run(beside_api(case), timeout=300)
    for st_ in steps:
        spec = st_["spec"]
        rep.tick("beside-an-api-client", key=(spec.get("kind"), spec.get("code"), spec.get("len"), spec.get("seed")), nontrivial=True,
                 sample={"batch": [spec]}, labels=("unknown-model" if st_["gate"] else "junk",))
        one = {"batch": [spec], "beside_api": True}
        if st_["dead"]:
            raise Violation("C06/beside-api/bridge-stops-delivering", one, "sentinel delivered", st_)
        if st_["callbacks"] or st_["loop_errors"]:
            raise Violation("C06/beside-api/" + ("device-delivered" if st_["callbacks"] else "exception"), one,
                            "no device, no exception", st_)
        if st_["gate"]:
            if st_["unknown"] < 1:
                raise Violation("C06/beside-api/unknown-model/no-warning", one, "an 'unknown device' warning", st_)
        elif st_["noise"]:
            raise Violation("C06/beside-api/reject/warning", one, "ignored silently", st_)


def cases_beside_api():
    out = []
    codes = ["0000", "0001", "0100", "0002", "0200", "0003", "0004", "0005", "0101", "ffff", "0f0f", "0b0b", "010b", "a801", "0c03"]
    for base in range(4):
        batch = []
        for i, c in enumerate(codes):
            batch.append({"kind": "unknown", "base": base, "code": c})
            if i % 3 == 0:
                batch.append({"kind": "len", "len": [40, 165, 0, 168][i % 4], "seed": i, "prefix": "00ff"})
        out.append({"batch": [b for b in batch if b["kind"] != "unknown" or b["code"] not in KNOWN]})
    return out


# -- case generation -----------------------------------------------------------------------------------

def cases_lengths():
    out = []
    for pre in ["magic", "f0fe", "fe00", "00f0", "fef1", "fff0"]:
        for lo in range(0, 401, 40):
            out.append({"batch": [{"kind": "len", "len": n, "prefix": pre, "seed": n * 7 + 1} for n in range(lo, min(lo + 40, 401))]})
    # frames that look even more genuine: magic + header length field = real length (+ known model, + valid signature)
    for lo in range(0, 401, 40):
        out.append({"batch": [{"kind": "len", "len": n, "prefix": "magic", "seed": n * 3 + 2, "header": True,
                               "model": ["01a8", "0e01", "0c01", "030f"][n % 4], "signed": n % 2 == 0}
                              for n in range(lo, min(lo + 40, 401))]})
    ncap = len(refb.captures())
    cuts = [{"kind": "cut", "capture": c, "delta": d, "seed": c + 3} for c in range(ncap) for d in (-3, -2, -1, 1, 2, 3)]
    for i in range(0, len(cuts), 36):
        out.append({"batch": cuts[i:i + 36]})
    # a genuine frame plus ONE extra byte, for every byte value (line ends, NUL, blanks, the magic ...), and a few pairs
    exts = [f"{b:02x}" for b in range(256)] + ["0d0a", "0a0a", "0000", "fef0", "2020"]
    gate_caps = [c for c in range(ncap) if refb.gate(refb.captures()[c][1])]
    picks = {}
    for c in gate_caps:
        picks.setdefault(len(refb.captures()[c][1]), c)
    for c in picks.values():
        specs = [{"kind": "cut", "capture": c, "delta": len(e) // 2, "ext": e} for e in exts]
        for i in range(0, len(specs), 40):
            out.append({"batch": specs[i:i + 40]})
    return out


def strat_reject():
    spec = st.one_of(
        st.builds(lambda n, pre, seed, hdr, sg, model: dict({"kind": "len", "len": n, "prefix": pre, "seed": seed},
                                                             **({"header": True} if hdr else {}), **({"signed": True} if sg else {}),
                                                             **({"model": model} if model else {})),
                  st.one_of(st.integers(0, 2048), st.sampled_from([0, 1, 2, 3, 158, 159, 160, 164, 165, 166, 167, 168, 169])),
                  st.one_of(st.sampled_from(list(PREFIXES)), st.binary(min_size=2, max_size=2).map(bytes.hex)), st.integers(0, 10 ** 6),
                  st.booleans(), st.booleans(), st.sampled_from([None, "01a8", "0e01", "0c02"])),
        st.binary(max_size=300).map(lambda b: {"kind": "hex", "hex": b.hex()}),
        st.builds(lambda c, d, s: {"kind": "cut", "capture": c, "delta": d, "seed": s}, st.integers(0, 40),
                  st.sampled_from([-40, -3, -2, -1, 1, 2, 3, 40]), st.integers(0, 1000)),
        st.builds(lambda c, e: {"kind": "cut", "capture": c, "delta": len(e), "ext": e.hex()}, st.integers(0, 40),
                  st.one_of(st.binary(min_size=1, max_size=3), st.sampled_from([b"\n", b"\r\n", b"\x00", b" ", b"\n\n"]))),
    )
    return st.lists(spec, min_size=1, max_size=30).map(lambda b: {"batch": b})


def strat_unknown():
    code = st.one_of(st.integers(0, 65535), st.sampled_from([0x0000, 0xFFFF, 0x030E, 0x0310, 0x01A9, 0x0E02, 0x0C03, 0x0F03, 0xA801, 0x010E]))
    spec = st.builds(lambda base, c, rb: {"kind": "unknown", "base": base, "code": f"{c:04x}", "random_body": rb},
                     st.integers(0, 5), code, st.one_of(st.just(0), st.integers(1, 10 ** 6)))
    return st.lists(spec, min_size=1, max_size=30).map(lambda b: {"batch": b})


def cases_unknown_neighbours():
    """Codes 'close' to the nine known ones: byte-swapped, +-1, every single-bit flip, each byte alone."""
    codes = set()
    for k in KNOWN:
        v = int(k, 16)
        codes.add(((v & 0xFF) << 8) | (v >> 8))
        codes.update({(v + 1) & 0xFFFF, (v - 1) & 0xFFFF, v & 0xFF00, v & 0x00FF, (v & 0xFF) * 0x101, (v >> 8) * 0x101})
        codes.update({v ^ (1 << b) for b in range(16)})
    codes = sorted(c for c in codes if f"{c:04x}" not in KNOWN)
    out = []
    for base in range(6):
        specs = [{"kind": "unknown", "base": base, "code": f"{c:04x}", "random_body": 0} for c in codes]
        for i in range(0, len(specs), 40):
            out.append({"batch": specs[i:i + 40]})
    return out


def cases_unknown_all():
    out = []
    for base in range(6):
        for lo in range(0, 65536, 512):
            out.append({"base": base, "codes": [lo, lo + 512], "random_body": 0 if base < 3 else base * 1000 + lo})
    return out


def subchecks(tier):
    big = tier == "thorough"
    subs = [
        Sub("reject-lengths", lambda rep, case: body_reject(rep, case, "reject-lengths"), cases=cases_lengths, shards=16, exhaustive=True),
        Sub("reject-random", lambda rep, case: body_reject(rep, case, "reject-random"), strategy=strat_reject,
            n=20_000 if big else 400, shards=16 if big else 4, shrink_budget=80),
    ]
    if big:
        subs.append(Sub("unknown-model-all-codes", lambda rep, case: body_unknown(rep, case, "unknown-model-all-codes"),
                        cases=cases_unknown_all, shards=16, exhaustive=True))
    subs.append(Sub("beside-an-api-client", body_beside_api, cases=cases_beside_api, shards=4, exhaustive=False))
    subs.append(Sub("after-silence", body_silence, cases=cases_silence, shards=2, exhaustive=False))
    subs.append(Sub("soak", body_soak, cases=lambda: [{"n": 300_000 if big else 70_000}], shards=1, exhaustive=False))
    subs.append(Sub("unknown-model-neighbours", lambda rep, case: body_unknown(rep, case, "unknown-model-neighbours"),
                    cases=cases_unknown_neighbours, shards=8, exhaustive=True))
    subs.append(Sub("unknown-model", body_unknown, strategy=strat_unknown, n=4000 if big else 300, shards=8 if big else 4,
                    shrink_budget=80))
    return subs
