"""C15 - the IR command built is the stored code that best matches the request."""
import json
import os
import re
import tempfile

from hypothesis import strategies as st

from .. import gen
from ..engine import Sub, Violation, canon
from ..fake import ops
from ..ref import irset

PROP = "C15"
LEVEL = "exploration"
DESIGN_REF = "DESIGN.md section 3, C15"
TECHNIQUE = "differential against a reference lookup model over Hypothesis-generated IR code sets (toggle/non-toggle, special/ordinary ids, sparse/dense keys, texts of 1..2000 bytes) x the full request grid; payload/length and capability clauses checked on every specified request"
LEVEL_TEXT = ("For every generated IR set the whole request grid (2 x 5 modes x temperatures x 4 fans x 2 swings x 3 previous states) "
              "is evaluated through SwitcherBreezeRemote.build_command (a third of the sets loaded through "
              "SwitcherBreezeRemoteManager from a generated JSON file) and compared with an independent reference that encodes the "
              "statement's fallback order, clamping, off/toggle rules, payload and length rendering. Requests the statement "
              "leaves open are counted and skipped. Sets are sampled; the grid per set is complete.")
RULE = ("case = IR-set spec (expanded deterministically) + request grid; non-trivial request = exact key absent (fallback used), "
        "temperature clamped, toggle prefix used, unsupported mode, or text length >= 252 or <= 11; distinct by (set, request)."
        ' IR-set shapes include toggle sets that store a plain off key, auto-mode keys with a temperature, and a lowest temperature listed once and first; after reading supported_modes the returned list is cleared and read again.')
ASSUMPTIONS = [
    "key grammar of ref/irset.py (aa|ad|aw[_fN[_d1]], ar|ah TT[_fN[_d1]], off, on_<key>, FUN_d0/FUN_d1) as in the Switcher IR database",
    "requests none of whose listed candidates is stored, 'off' with an unsupported mode on a non-toggle set, and per-mode feature flags are unspecified",
    "an error 'names the supported modes' if every supported mode's display name occurs in it and no other unsupported mode's name does",
]

def make_remote(spec, via_file):
    from aioswitcher.api.remotes import SwitcherBreezeRemote, SwitcherBreezeRemoteManager
    ir = irset.expand(spec)
    if not via_file:
        return SwitcherBreezeRemote(ir), ir
    with tempfile.TemporaryDirectory(prefix="aiosw-verif-ir-") as td:
        path = os.path.join(td, "irset_db.json")
        other = dict(spec, id="OTHER001", seed=spec.get("seed", 0) + 1)
        with open(path, "w", encoding="utf-8") as fh:
            json.dump({"OTHER001": irset.expand(other), spec["id"]: ir}, fh)
        mgr = SwitcherBreezeRemoteManager(path)
        if spec.get("seed", 0) % 2:
            mgr.get_remote("OTHER001")     # another remote loaded first must not shadow this one
        r1 = mgr.get_remote(spec["id"])
        r2 = mgr.get_remote(spec["id"])
    if r1 is not r2 and r1.remote_id != r2.remote_id:
        raise Violation("C15/manager-returns-different-remotes", {"spec": spec}, spec["id"], [r1.remote_id, r2.remote_id])
    return r1, ir


def grid(spec, tier_full):
    tmin, tmax = spec["tmin"], spec["tmax"]
    temps = range(0, 61) if tier_full else sorted({0, tmin - 1, tmin, (tmin + tmax) // 2, tmax, tmax + 1, 60})
    for on in (True, False):
        for mode in irset.MODES:
            ts = temps if mode in ("cool", "heat") else (24,)
            for t in ts:
                for fan in range(4):
                    for swing in (False, True):
                        for prev in (None, True, False):
                            yield {"on": on, "mode": mode, "target": t, "fan": fan, "swing": swing, "prev": prev}


def check_payload(sig, case, cmd, text):
    want_len, want_cmd = irset.payload(text)
    got_cmd = getattr(cmd, "command", None)
    got_len = getattr(cmd, "length", None)
    if not isinstance(got_cmd, str) or got_cmd.lower() != want_cmd:
        raise Violation(f"{sig}/wrong-code", case, {"text": text[:120], "len": len(text)},
                        {"command": (got_cmd or "")[:240]})
    if not isinstance(got_len, str) or got_len.lower() != want_len:
        n = 4 + len(text)
        cls = "<16" if n < 16 else "<256" if n < 256 else ">=256"
        raise Violation(f"C15/length-field/payload{cls}", case, want_len, got_len)


def one_request(rep, sub, remote, ir, spec, rq, via_file, spec_key=None):
    spec_key = spec_key or canon(spec)
    ref = irset.lookup(ir, rq["on"], rq["mode"], rq["target"], rq["fan"], rq["swing"], rq["prev"])
    case = {"spec": spec, "requests": [rq], "via_file": via_file}
    if ref[0] == "unspecified":
        rep.label("unspecified-skipped")
        return
    args = (ops._state(rq["on"]), ops._mode(rq["mode"]), rq["target"], ops._fan(rq["fan"]), ops._swing(rq["swing"]),
            None if rq["prev"] is None else ops._state(rq["prev"]))
    if ref[0] == "error":
        rep.tick(sub, key=spec_key + repr(tuple(rq.values())), nontrivial=True, labels=("unsupported-mode",))
        try:
            cmd = remote.build_command(*args)
        except RuntimeError as exc:
            msg = str(exc).lower()
            missing = [m for m in ref[1] if not re.search(r"\b" + m + r"\b", msg)]
            extra = [m for m in irset.MODES if m not in ref[1] and m != rq["mode"] and re.search(r"\b" + m + r"\b", msg)]
            if missing or extra:
                raise Violation("C15/unsupported-mode/error-does-not-name-supported-modes", case, ref[1], str(exc))
            return
        except Exception as exc:
            raise Violation(f"C15/unsupported-mode/raises-{type(exc).__name__}", case, "RuntimeError", f"{type(exc).__name__}: {exc}")
        raise Violation("C15/unsupported-mode/accepted", case, "RuntimeError", getattr(cmd, "command", "")[:100])
    _, key, text, clamped = ref
    exact = (("on_" if key.startswith("on_") else "") + irset.MODE_CODE[rq["mode"]]
             + (str(clamped) if rq["mode"] in ("cool", "heat") else "") + f"_f{rq['fan']}" + ("_d1" if rq["swing"] else ""))
    labels = []
    if key == "off":
        labels.append("plain-off")
    elif key != exact:
        labels.append("fallback")
    if clamped != rq["target"] and rq["mode"] in ("cool", "heat") and key != "off":
        labels.append("clamped")
    if key.startswith("on_"):
        labels.append("toggle-prefix")
    n = 4 + len(text)
    if n >= 256 or n < 16:
        labels.append("payload>=256" if n >= 256 else "payload<16")
    rep.tick(sub, key=spec_key + repr(tuple(rq.values())), nontrivial=bool(labels), labels=labels,
             sample=case if labels and rep.per_sub[sub] < 4096 else None)
    try:
        cmd = remote.build_command(*args)
    except Exception as exc:
        raise Violation(f"C15/lookup-raises-{type(exc).__name__}/" + ("+".join(labels) or "exact"), case, {"key": key},
                        f"{type(exc).__name__}: {exc}")
    check_payload("C15/" + ("+".join(l for l in labels if not l.startswith("payload")) or "exact"), case, cmd, text)
    # the caller keeps the command it got for the previous request: building another one must not change it
    held = _HELD.get("prev")
    if held is not None and held[0] == id(remote):
        check_payload("C15/earlier-command-changed-by-a-later-build", {"spec": spec, "requests": [held[3], rq], "via_file": via_file},
                      held[1], held[2])
    _HELD["prev"] = (id(remote), cmd, text, rq)


_HELD = {}


def check_capabilities(rep, sub, remote, ir, spec, via_file):
    cap = irset.capabilities(ir)
    case = {"spec": spec, "requests": [], "via_file": via_file}
    # a brand-new remote object asked for one capability FIRST, before anything else touched it (each in turn)
    from aioswitcher.api.remotes import SwitcherBreezeRemote
    firsts = {"on_off_type": cap["toggle"], "separated_swing_command": cap["separate_swing"]}
    if cap["tmin"] is not None:
        firsts.update(min_temperature=cap["tmin"], max_temperature=cap["tmax"])
    for prop, want in firsts.items():
        fresh = SwitcherBreezeRemote(ir)
        got = getattr(fresh, prop)
        if got != want or type(got) is not type(want):
            raise Violation(f"C15/capabilities/{prop}-read-first-on-a-fresh-remote", case, want, got)
    fresh = SwitcherBreezeRemote(ir)
    if sorted(m.display for m in fresh.supported_modes) != sorted(cap["supported"]):
        raise Violation("C15/capabilities/supported_modes-read-first-on-a-fresh-remote", case, sorted(cap["supported"]),
                        sorted(m.display for m in fresh.supported_modes))
    rep.tick(sub, key=("cap", spec), nontrivial=True, labels=("capabilities",))
    got_modes = sorted(m.display for m in remote.supported_modes)
    if got_modes != sorted(cap["supported"]) or len(remote.supported_modes) != len(set(remote.supported_modes)):
        raise Violation("C15/capabilities/supported-modes", case, sorted(cap["supported"]), got_modes)
    if cap["tmin"] is not None and (remote.min_temperature, remote.max_temperature) != (cap["tmin"], cap["tmax"]):
        raise Violation("C15/capabilities/temperature-range", case, [cap["tmin"], cap["tmax"]],
                        [remote.min_temperature, remote.max_temperature])
    if remote.on_off_type is not cap["toggle"]:
        raise Violation("C15/capabilities/toggle-type", case, cap["toggle"], remote.on_off_type)
    if remote.separated_swing_command is not cap["separate_swing"]:
        raise Violation("C15/capabilities/separate-swing", case, cap["separate_swing"], remote.separated_swing_command)
    # the caller owns the list it was handed: editing it must not change what the remote supports
    try:
        handed = remote.supported_modes
        handed.clear()
    except Exception:
        pass
    again = sorted(m.display for m in remote.supported_modes)
    if again != sorted(cap["supported"]):
        raise Violation("C15/capabilities/supported-modes-after-caller-edited-the-list", case, sorted(cap["supported"]), again)
    if remote.remote_id != cap["remote_id"]:
        raise Violation("C15/capabilities/remote-id", case, cap["remote_id"], remote.remote_id)
    # the separate swing command of the special remotes
    for swing in (False, True):
        ref = irset.swing_lookup(ir, swing)
        try:
            cmd = remote.build_swing_command(ops._swing(swing))
        except RuntimeError:
            if ref[0] == "ok":
                raise Violation("C15/swing-command/raises", case, ref[1], "RuntimeError")
            continue
        except Exception as exc:
            raise Violation(f"C15/swing-command/raises-{type(exc).__name__}", case, ref, f"{type(exc).__name__}: {exc}")
        if ref[0] != "ok":
            raise Violation("C15/swing-command/missing-key-accepted", case, "RuntimeError", getattr(cmd, "command", "")[:80])
        rep.tick(sub, key=("swing", spec, swing), nontrivial=True, labels=("swing-command",))
        check_payload("C15/swing-command", case, cmd, ref[2])


def body(rep, case, sub="lookup", full=False):
    spec = case["spec"]
    via_file = case.get("via_file", False)
    remote, ir = make_remote(spec, via_file)
    if via_file:
        rep.label("loaded-through-manager")
    reqs = case.get("requests", "grid")
    if reqs == "grid" or reqs == "full":
        check_capabilities(rep, sub, remote, ir, spec, via_file)
        spec_key = canon(spec)
        for rq in grid(spec, reqs == "full"):
            one_request(rep, sub, remote, ir, spec, rq, via_file, spec_key)
    else:
        if not reqs:
            check_capabilities(rep, sub, remote, ir, spec, via_file)
        for rq in reqs:
            one_request(rep, sub, remote, ir, spec, rq, via_file)


def body_payload(rep, case):
    """SwitcherBreezeCommand alone, every text length 1..2000."""
    from aioswitcher.api.remotes import SwitcherBreezeCommand
    lo, hi = (case["len"], case["len"] + 1) if "len" in case else (case["lo"], case["hi"])
    for n in range(lo, hi):
        text = ("K" * n)
        rep.tick("payload-lengths", key=n, nontrivial=n + 4 >= 256 or n + 4 < 16 or (n + 4) % 16 == 0, sample={"len": n})
        want_len, want_cmd = irset.payload(text)
        cmd = SwitcherBreezeCommand(want_cmd)
        if cmd.command != want_cmd:
            raise Violation("C15/command-object/command", {"len": n}, want_cmd[:60], cmd.command[:60])
        if cmd.length.lower() != want_len:
            cls = "<16" if n + 4 < 16 else "<256" if n + 4 < 256 else ">=256"
            raise Violation(f"C15/length-field/payload{cls}", {"len": n}, want_len, cmd.length)


def strat_specs(reqs):
    def build():
        return st.builds(lambda spec, vf: {"spec": spec, "via_file": vf, "requests": reqs},
                         gen.ir_specs(), st.sampled_from([False, False, True]))
    return build


def subchecks(tier):
    big = tier == "thorough"
    return [
        Sub("lookup", lambda rep, case: body(rep, case, "lookup"), strategy=strat_specs("full" if big else "grid"),
            n=6_000 if big else 1200, shards=16 if big else 8, shrink_budget=60),
        Sub("payload-lengths", body_payload, cases=lambda: [{"lo": a, "hi": min(a + 125, 2001)} for a in range(1, 2001, 125)],
            shards=16, exhaustive=True),
    ]
