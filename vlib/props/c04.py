"""C04 - the signature is the protocol's double CRC-16 for every byte string."""
from hypothesis import strategies as st

from ..engine import Sub, Violation
from ..ref import crc, wire

PROP = "C04"
LEVEL = "exploration"
DESIGN_REF = "DESIGN.md section 3, C04"
RULE = (
    "inputs: exhaustively every byte string of length 0..2 (65,793), every single-bit flip of 16 "
    "reference frames, Hypothesis binary strings up to 4 KiB with lengths biased to 0,1,2^k+-1, hex spelled "
    "lower/upper/mixed case, and strings that are not hex (odd length / non-hex printable characters / embedded blanks); "
    "oracle: independent bitwise CRC-16 (poly 0x1021, init 0x1021) applied twice as the statement says. "
    "Non-trivial = a CRC with a zero leading nibble or the high bit set in either half, or an input longer "
    "than 255 bytes, or a non-lower-case spelling, or an invalid input; distinct by input string."
        ' Also: inputs that already end in their own valid signature (signer output fed back), inputs of 4097..65537 bytes around power-of-two block boundaries, embedded blanks as invalid hex; the hex text as a str-subclass instance and as a (str, Enum) member (text-forms); the same invalid text signed twice in a row.')
ASSUMPTIONS = [
    "bitwise reference CRC checked against the catalogued check values of '123456789' (XMODEM, CCITT-FALSE, AUG-CCITT)",
    "Hypothesis generators; CPython bytes.fromhex for decoding the library's hex output",
]


def _sign():
    from aioswitcher.device.tools import sign_packet_with_crc_key
    return sign_packet_with_crc_key


def check_valid(rep, sub, p: str):
    sign = _sign()
    body = bytes.fromhex(p)
    exp = crc.signature(body)
    out = sign(p)
    out2 = sign(p)
    nt = (len(body) > 255 or exp[1] < 0x10 or exp[1] >= 0x80 or exp[3] < 0x10 or exp[3] >= 0x80
          or p != p.lower())
    rep.tick(sub, key=p, nontrivial=nt, sample={"hex": p if len(p) < 200 else p[:60] + f"...({len(p)} chars)"},
             labels=("len>255",) if len(body) > 255 else ())
    case = {"hex": p}
    if not isinstance(out, str):
        raise Violation("C04/result-type", case, "str", type(out).__name__)
    if out != out2:
        raise Violation("C04/nondeterministic", case, out, out2)
    if out[:len(p)] != p:
        raise Violation("C04/alters-input", case, p, out[:len(p)])
    tail = out[len(p):]
    try:
        got = bytes.fromhex(tail)
    except ValueError:
        got = None
    if len(tail) != 8 or got != exp:
        raise Violation("C04/signature-mismatch", case, exp.hex(), tail)


def body_forms(rep, case):
    """The hex text handed over as a str-subclass instance / a (str, Enum) member (packet templates kept in an enum)."""
    from .. import gen
    sign = _sign()
    p, form = case["hex"], case["form"]
    exp = crc.signature(bytes.fromhex(p))
    rep.tick("text-forms", key=(p, form), nontrivial=True, sample=case, labels=(f"form={form}",))
    try:
        out = sign(gen.text_form(p, form))
    except Exception as exc:
        raise Violation(f"C04/raises-for-{form}", case, p + exp.hex(), f"{type(exc).__name__}: {exc}")
    if not isinstance(out, str) or out[:len(p)].lower() != p.lower() or len(out) != len(p) + 8:
        raise Violation(f"C04/alters-input/{form}", case, p + exp.hex(), repr(out)[:200])
    try:
        got = bytes.fromhex(out[len(p):])
    except ValueError:
        got = None
    if got != exp:
        raise Violation(f"C04/signature-mismatch/{form}", case, exp.hex(), out[len(p):])


def cases_forms():
    from .. import gen
    out = []
    frames = [f.hex() for f in ref_frames()]
    for form in gen.TEXT_FORMS:
        for p in ["", "00", "fef0", "FEF0", "a1B2c3"] + frames + [f.upper() for f in frames[:3]]:
            out.append({"hex": p, "form": form})
    return out


def body_range(rep, case):
    if "hex" in case:
        return check_valid(rep, "exhaustive-len0-2", case["hex"])
    length, lo, hi = case["len"], case["lo"], case["hi"]
    for v in range(lo, hi):
        check_valid(rep, "exhaustive-len0-2", v.to_bytes(length, "big").hex() if length else "")


def cases_range():
    out = [{"len": 0, "lo": 0, "hi": 1}, {"len": 1, "lo": 0, "hi": 256}]
    out += [{"len": 2, "lo": a, "hi": a + 2048} for a in range(0, 65536, 2048)]
    return out


def ref_frames():
    base = {"device_id": "a1b2c3", "session": "9f0e1d2c", "ts": 1700000000}
    frames = [
        wire.build("login1", {"key": 0x18, "ts": 1700000000}),
        wire.build("login2", dict(base, session="00000000")),
        wire.build("get_state1", base), wire.build("get_state2", base),
        wire.build("control", dict(base, on=True, timer_seconds=5400)),
        wire.build("control", dict(base, on=False, timer_seconds=0)),
        wire.build("auto_shutdown", dict(base, seconds=7200)),
        wire.build("set_name", dict(base, name="Boiler")),
        wire.build("get_schedules", base),
        wire.build("delete_schedule", dict(base, slot=3)),
        wire.build("create_schedule", dict(base, mask=0x2A, start=1700003600, end=1700007200)),
        wire.build("breeze_command", dict(base, text="abc|0011223344556677")),
        wire.build("breeze_command", dict(base, text="P" * 200 + "|" + "A" * 99)),
        wire.build("breeze_status", dict(base, state=1, mode=4, target=24, fan=2, swing=1)),
        wire.build("runner_stop", base),
        wire.build("runner_position", dict(base, position=77)),
    ]
    return frames


def body_flip(rep, case):
    if "hex" in case:
        return check_valid(rep, "bitflips", case["hex"])
    frame = ref_frames()[case["frame"]][:-4]
    for bit in range(len(frame) * 8):
        b = bytearray(frame)
        b[bit // 8] ^= 1 << (bit % 8)
        check_valid(rep, "bitflips", bytes(b).hex())


def cases_flip():
    return [{"frame": i} for i in range(len(ref_frames()))]


def strat_random():
    lengths = st.one_of(
        st.sampled_from([0, 1, 2, 3, 4, 7, 8, 9, 15, 16, 17, 31, 32, 33, 63, 64, 65, 127, 128, 129, 255, 256,
                         257, 511, 512, 513, 1023, 1024, 1025, 2047, 2048, 2049, 4095, 4096]),
        st.integers(0, 4096),
    )
    return lengths.flatmap(lambda n: st.binary(min_size=n, max_size=n)).map(lambda b: {"hex": b.hex()})


def body_random(rep, case):
    check_valid(rep, "random", case["hex"])


def strat_presigned():
    """Inputs that already end in the valid signature of what precedes them (signer output fed back in), incl. the
    signature of the empty string: signing must still append four more bytes."""
    def mk(b):
        return {"hex": crc.sign(b).hex()}
    twice = st.binary(max_size=200).map(lambda b: {"hex": crc.sign(crc.sign(b)).hex()})
    return st.one_of(st.binary(max_size=300).map(mk), twice, st.sampled_from(
        [{"hex": crc.signature(b"").hex()}, {"hex": crc.sign(ref_frames()[0]).hex()}, {"hex": ref_frames()[3].hex().upper()}]))


def body_presigned(rep, case):
    check_valid(rep, "presigned", case["hex"])


def cases_long():
    # beyond the 4 KiB of the random part: block boundaries of any chunked implementation
    return [{"len": n, "seed": n % 7} for n in (4097, 8191, 8192, 8193, 12288, 16383, 16384, 16385, 20000, 32769, 65537)]


def body_long(rep, case):
    if "hex" in case:
        return check_valid(rep, "long", case["hex"])
    import hashlib
    n = case["len"]
    blob = b"".join(hashlib.blake2b(f"{case['seed']}/{i}".encode(), digest_size=64).digest() for i in range(n // 64 + 1))[:n]
    sign = _sign()
    p = blob.hex()
    rep.tick("long", key=n, nontrivial=True, sample={"len": n})
    out = sign(p)
    tail = out[len(p):] if isinstance(out, str) else ""
    try:
        got = bytes.fromhex(tail)
    except ValueError:
        got = None
    if not isinstance(out, str) or out[:len(p)] != p or len(tail) != 8 or got != crc.signature(blob):
        raise Violation("C04/signature-mismatch/long-input", {"len": n, "seed": case["seed"]}, crc.signature(blob).hex(), tail[:40])


def strat_spelling():
    def spell(t):
        b, mask = t
        h = b.hex()
        return {"hex": "".join(c.upper() if (mask >> (i % 64)) & 1 else c for i, c in enumerate(h))}
    return st.tuples(st.binary(min_size=1, max_size=300), st.integers(0, 2 ** 64 - 1)).map(spell)


def body_spelling(rep, case):
    check_valid(rep, "spelling", case["hex"])


NONHEX = "ghijklmnopqrstuvwxyzGHIJKLMNOPQRSTUVWXYZ!#$%&()*+,-./:;<=>?@[]^_{|}~"


def strat_invalid():
    hexes = st.text(alphabet="0123456789abcdefABCDEF", max_size=64)
    odd = hexes.filter(lambda s: len(s) % 2 == 1)
    def inject(t):
        s, pos, ch = t
        pos = pos % (len(s) + 1)
        return s[:pos] + ch + s[pos:]
    nonhex = st.tuples(hexes, st.integers(0, 64), st.text(alphabet=NONHEX, min_size=1, max_size=3)).map(inject)
    blanks = st.tuples(hexes, st.integers(0, 64), st.text(alphabet=" \t\n\r", min_size=1, max_size=2)).map(inject)
    return st.one_of(odd, nonhex, blanks).map(lambda s: {"text": s})


def body_invalid(rep, case):
    s = case["text"]
    rep.tick("invalid", key=s, nontrivial=True, sample=case, labels=("blank-inside",) if any(c in s for c in " \t\n\r") else ("odd-length",) if len(s) % 2 else ("non-hex",))
    for attempt in ("first-call", "same-text-again"):
        try:
            out = _sign()(s)
        except Exception:  # any exception type is a rejection
            continue
        raise Violation(f"C04/invalid-hex-accepted/{attempt}", case, "an exception", out)


def subchecks(tier):
    big = tier == "thorough"
    return [
        Sub("exhaustive-len0-2", body_range, cases=cases_range, shards=16, exhaustive=True),
        Sub("bitflips", body_flip, cases=cases_flip, shards=16, exhaustive=True),
        Sub("random", body_random, strategy=strat_random, n=600_000 if big else 4000, shards=16 if big else 4),
        Sub("presigned", body_presigned, strategy=strat_presigned, n=100_000 if big else 1500, shards=8 if big else 1),
        Sub("text-forms", body_forms, cases=cases_forms, shards=1, exhaustive=False),
        Sub("long", body_long, cases=cases_long, shards=4, exhaustive=True),
        Sub("spelling", body_spelling, strategy=strat_spelling, n=200_000 if big else 2000, shards=8 if big else 1),
        Sub("invalid", body_invalid, strategy=strat_invalid, n=200_000 if big else 2000, shards=8 if big else 1),
    ]

TECHNIQUE = "exhaustive enumeration (<=2 bytes, all single-bit flips of 16 frames) + Hypothesis random inputs, differential against a bitwise reference CRC"
LEVEL_TEXT = ("Differential property-based testing of sign_packet_with_crc_key against an independent bitwise double-CRC: "
              "exhaustive for all 65,793 strings of <=2 bytes and ~12.8k bit flips of real frames, sampled up to 4 KiB; "
              "also case-preservation, determinism and rejection of non-hex. Sampling cannot prove all longer strings.")
