"""C01 - every frame written to a device is self-consistent and correctly signed."""
from hypothesis import strategies as st

from .. import gen, vclock
from ..engine import Sub, Violation
from ..fake import env, net, ops
from ..ref import wire

PROP = "C01"
LEVEL = "exploration"
DESIGN_REF = "DESIGN.md section 3, C01"
TECHNIQUE = "Hypothesis-generated operations and arguments driven through the public API against a scripted fake device on loopback TCP; structural oracle (magic, LE16 length, terminator, independent bitwise double-CRC) on every byte string received"
LEVEL_TEXT = ("Every one of the 16 operation variants of both APIs is called with generated accepted arguments (names in 4 "
              "scripts, IR texts 1..2000 bytes with lengths biased around 16/256/2^8k, any id/key/session/time) against a real "
              "TCP server; each byte string the client wrote (cut at the client's own write() boundaries) must satisfy the four "
              "structural clauses, checked with a reference CRC that shares nothing with the repository. Random sampling of an "
              "unbounded argument space: no proof of absence.")
RULE = ("case = (operation kind, accepted arguments, device id, key, session id, timestamp, login-reply length), one "
        "connection per case; plus histories of 2..10 operations on one connection per API type. Non-trivial = a frame other than the login frame; distinct by (kind, frame length, signature bytes)."
        ' Also: host zones other than UTC, names that are not NFC-stable or start with U+FEFF, and 32-byte names crafted so that their last four bytes equal the signature of the frame so far; slow-device: every operation x every step answered 6 s .. 25 h late while the wall clock keeps running with the loop clock (both harness-owned), followed by another operation - every byte string written meanwhile is checked.'
        ' odd-replies: after a good login reply a LATER reply of the exchange is short (1..91 bytes of the right reply), garbage, NUL bytes, the request echoed back or missing; every frame the client still writes is judged (non-trivial = the client wrote a frame after the odd reply).')
ASSUMPTIONS = [
    "frame boundaries = lengths of the client's StreamWriter.write calls (harness-side tap), content from the socket",
    "login replies of 12..1024 bytes carrying the session id at offset 8 (the statement's precondition)",
    "bitwise reference CRC pinned to the catalogued check values and the 8 literal signatures of tests/test_api_packet_crc_signing.py",
]

def lenclass(n):
    return "<16" if n < 16 else "<256" if n < 256 else ">=256"


def argclass(kind, a):
    if kind == "set_device_name":
        return "ascii" if a["name"].isascii() else "non-ascii"
    return ""


async def run_case(rep, case, sub):
    dev = await env.device()
    kind, a = case["kind"], case["args"]
    cl = ops.Client(dev, ops.api_type(kind), case["device_id"], f"{case['key']:02x}")
    await cl.connect()
    try:
        dev.set_script(ops.good_script(kind, a, case["session"], salt=case.get("salt", 1), login_len=case.get("login_len", 44)))
        with vclock.frozen_epoch(case.get("zone", "UTC"), case["ts"]):
            status, res = await cl.call(kind, a)
        frames = list(cl.conn.frames)
        flags = list(cl.conn.flags)
    finally:
        await cl.close()
    if status == "timeout":
        raise Violation(f"C01/operation-hangs/op={kind}", case, "operation completes", "timeout with every received frame answered")
    if status == "raise":
        raise Violation(f"C01/accepted-arguments-raise/op={kind}/{type(res).__name__}/{argclass(kind, a)}", case,
                        "frames written", f"{type(res).__name__}: {res}")
    if len(frames) < 2:
        raise Violation(f"C01/no-command-frame/op={kind}", case, ">= 2 frames", len(frames))
    for i, (f, flag) in enumerate(zip(frames, flags)):
        nt = i > 0
        rep.tick(sub, key=(kind, len(f), f[-4:].hex()), nontrivial=nt,
                 sample={"op": kind, "frame_index": i, "len": len(f), "head": f[:16].hex(), "sig": f[-4:].hex()},
                 labels=(f"op={kind}", f"framelen{lenclass(len(f))}") if nt else ("login-frame",))
        if flag:
            # bytes no transport write accounts for (client bypassed the transport): cut by quiescence, judged as they came
            rep.label(f"{flag}-chunk")
        errs = wire.structural_errors(f)
        if errs:
            raise Violation(f"C01/{'+'.join(errs)}/op={kind}/frame{lenclass(len(f))}/{argclass(kind, a)}".rstrip("/"),
                            case, "fe f0 | LE16(len) | ... f0 fe at 38 | ... | double CRC",
                            {"frame_index": i, "len": len(f), "length_field": int.from_bytes(f[2:4], "little") if len(f) > 3 else None,
                             "errors": errs, "frame": f.hex()[:400]})


async def run_slow(rep, case):
    """One answer of the device comes seconds to hours late while the host's wall clock keeps running (the loop clock and
    the wall clock advance together, both harness-owned).  Whatever the client writes meanwhile or afterwards - a repeated
    request, the rest of the exchange, the next operation - must still be whole, correctly signed frames."""
    import asyncio
    import datetime as dt
    import time_machine
    from . import c03
    dev = await env.device()
    kind, a, slow = case["kind"], case["args"], case["slow"]
    cl = ops.Client(dev, ops.api_type(kind), case["device_id"], f"{case['key']:02x}")
    await cl.connect()
    try:
        with time_machine.travel(dt.datetime.fromtimestamp(case["ts"], dt.timezone.utc), tick=False) as tr:
            now = [float(case["ts"])]

            async def ticker():
                # wall clock follows the loop clock: 1 s steps for the first half minute, then coarser
                while True:
                    step = 1.0 if now[0] - case["ts"] < 30 else max(1.0, slow["secs"] / 12)
                    await asyncio.sleep(step)
                    now[0] += step
                    tr.move_to(now[0])
            tick = asyncio.ensure_future(ticker())
            try:
                script = ops.good_script(kind, a, case["session"], salt=case.get("salt", 1))
                script[slow["step"]]["sleep"] = slow["secs"]
                cl.conn.script.extend(script)
                status, res = await cl.call(kind, a, timeout=40.0 + 2 * slow["secs"])
                if status != "ok":
                    rep.label("gave-up-on-slow-device")
                    await asyncio.sleep(slow["secs"] + 1)
                    await cl.settle()
                # the next operation on the same connection
                nk = case["next"]
                cl.conn.script.clear()
                cl.conn.script.extend(ops.good_script(nk, c03.CANON_ARGS[nk], "5e55a002", salt=3))
                await cl.call(nk, c03.CANON_ARGS[nk])
            finally:
                tick.cancel()
                try:
                    await tick
                except BaseException:  # noqa
                    pass
        frames = list(cl.conn.frames)
    finally:
        await cl.close()
    rep.tick("slow-device", key=case, nontrivial=True, sample=case, labels=(f"op={kind}", f"late@step{slow['step']}"))
    for i, f in enumerate(frames):
        errs = wire.structural_errors(f)
        if errs:
            raise Violation(f"C01/{'+'.join(errs)}/op={kind}/around-late-reply", case, "fe f0 | LE16(len) | ... f0 fe at 38 | ... | double CRC",
                            {"frame_index": i, "of": len(frames), "len": len(f), "errors": errs, "frame": f.hex()[:400]})


def body_slow(rep, case):
    with net.virtual_time():
        net.run(run_slow(rep, case))


def cases_slow(tier):
    from . import c03

    def gen_cases():
        out = []
        n = 0
        for kind in ops.KINDS:
            same = ops.KINDS1 if ops.api_type(kind) == 1 else ops.KINDS2
            for step in range(1 + len(ops.FRAMES[kind])):
                for secs in ([6, 61, 3601] if tier != "thorough" else [2, 4, 6, 11, 31, 61, 301, 3601, 90_000]):
                    n += 1
                    out.append({"kind": kind, "args": c03.CANON_ARGS[kind], "device_id": f"{(n * 7919) % 0xFFFFFF:06x}", "key": n % 256,
                                "session": bytes([0xA5, n % 256, n >> 8, 0x5A]).hex(), "ts": 1_700_000_000 + n * 977,
                                "slow": {"step": step, "secs": secs}, "next": same[n % len(same)]})
        return out
    return gen_cases


def make_body(sub):
    def body(rep, case):
        net.run(run_case(rep, case, sub))
    return body


async def run_history(rep, case, sub):
    """Several operations in a row on one connection per API type: every frame of the whole history is checked."""
    dev = await env.device()
    clients = {}
    try:
        for idx, op in enumerate(case["ops"]):
            kind, a = op["kind"], op["args"]
            typ = ops.api_type(kind)
            if typ not in clients:
                clients[typ] = ops.Client(dev, typ, case["device_id"], f"{case['key']:02x}")
                await clients[typ].connect()
            cl = clients[typ]
            n0 = len(cl.conn.frames)
            cl.conn.script.clear()
            cl.conn.script.extend(ops.good_script(kind, a, op["session"], salt=op.get("salt", 1)))
            with vclock.frozen_epoch("UTC", case["ts"] + 3 * idx):
                status, res = await cl.call(kind, a)
            if status != "ok":
                raise Violation(f"C01/accepted-arguments-raise/op={kind}/{type(res).__name__ if res is not None else status}/in-history",
                                case, "frames written", f"{status}: {res!r}")
            for i, (f, flag) in enumerate(zip(cl.conn.frames[n0:], cl.conn.flags[n0:])):
                rep.tick(sub, key=(kind, len(f), f[-4:].hex()), nontrivial=i > 0 and idx > 0,
                         sample={"op": kind, "position_in_history": idx, "len": len(f), "sig": f[-4:].hex()},
                         labels=("frame-of-later-operation",) if idx > 0 else ())
                errs = wire.structural_errors(f)
                if errs:
                    raise Violation(f"C01/{'+'.join(errs)}/op={kind}/frame{lenclass(len(f))}/in-history", case,
                                    "every frame of the history well-formed",
                                    {"op_index": idx, "frame_index": i, "len": len(f), "errors": errs, "frame": f.hex()[:300]})
    finally:
        for cl in clients.values():
            await cl.close()


def body_odd(rep, case):
    """The login was answered properly (session id present); a LATER reply of the exchange is short, truncated, garbage,
    NUL bytes, the request echoed back or missing.  The client may give up or go on - whatever it still writes (a repeated
    request, the rest of the exchange) is inside the statement's quantifier and must be a whole, signed frame."""
    from . import c09
    status, res, frames, sent, data = net.run(c09.exchange(case))
    if status == "skip":
        rep.label("skipped")
        return
    kind, step, fault = case["kind"], case["step"], case["fault"]
    rlen = "none" if data is None else "1-43" if len(data) < 44 else "44-91" if len(data) < 92 else ">=92"
    rep.tick("odd-replies", key=(kind, step, fault), nontrivial=len(frames) > step, sample=case,
             labels=(f"op={kind}", f"fault={fault['type']}", f"reply-len={rlen}", f"frames-after-fault={max(0, len(frames) - step - 1)}"))
    for i, f in enumerate(frames):
        errs = wire.structural_errors(f)
        if errs:
            raise Violation(f"C01/{'+'.join(errs)}/op={kind}/after-odd-reply/{fault['type']}", case,
                            "fe f0 | LE16(len) | ... f0 fe at 38 | ... | double CRC",
                            {"frame_index": i, "of": len(frames), "len": len(f), "errors": errs, "frame": f.hex()[:400]})


def strat_odd():
    from . import c09

    def fit(case):
        case["step"] = max(1, case["step"])              # the login reply itself stays good: the statement's precondition
        if case["fault"]["type"] == "empty-read":
            case["fault"] = {"type": "prefix", "n": 1 + case["salt"] % 91}     # a short but non-empty part of the right reply
        case.pop("idle_before", None)
        case["retries"] = case["salt"] % 2
        return c09._fit(case)
    return c09.strat_garbage().map(fit)


def crafted_name(device_id, session, ts, n):
    """A 32-byte name whose last four bytes equal the signature of everything that precedes them in the frame: a
    'this packet looks signed already' shortcut would then leave the frame unsigned."""
    from ..ref import crc
    for k in range(4000):
        head = f"N{n:03d}-{k:04d}-".ljust(28, "x")
        unsigned = wire.build("set_name", {"device_id": device_id, "session": session, "ts": ts, "name": head + "????"})[:-4]
        sig = crc.signature(unsigned[:-4])
        if all(0x21 <= b <= 0x7E for b in sig):
            return head + sig.decode("ascii")
    return None


def cases_crafted():
    out = []
    for n in range(24):
        dev_id, sess, ts = f"{(n * 7919 + 13) % (1 << 24):06x}", f"{(n * 104729 + 77) % (1 << 32):08x}", 1_700_000_000 + n * 86_411
        name = crafted_name(dev_id, sess, ts, n)
        if name:
            out.append({"kind": "set_device_name", "args": {"name": name}, "device_id": dev_id, "key": 0x18, "session": sess, "ts": ts,
                        "login_len": 44, "salt": 1})
    return out


def strat_history():
    from . import c03
    op = st.sampled_from(ops.KINDS).flatmap(lambda k: st.builds(
        lambda a, sess, salt: {"kind": k, "args": a, "session": sess, "salt": salt},
        gen.op_args(k).map(_resolvable), gen.sessions, st.integers(1, 100)))
    return st.builds(lambda oplist, dev_id, key, ts: {"ops": oplist, "device_id": dev_id, "key": key, "ts": ts},
                     st.lists(op, min_size=2, max_size=10), gen.device_ids, gen.keys_int, st.integers(300_000, 2 ** 32 - 400_000))


def strat_for(kind):
    def build():
        return st.builds(
            lambda a, dev_id, key, sess, ts, ll, salt, z: {"kind": kind, "args": a, "device_id": dev_id, "key": key,
                                                           "session": sess, "ts": ts, "login_len": ll, "salt": salt, "zone": z},
            gen.op_args(kind).map(_resolvable), gen.device_ids, gen.keys_int, gen.sessions,
            gen.timestamps if kind == "create_schedule" else gen.timestamps_wide, gen.login_lens,
            st.integers(1, 200), st.sampled_from(["UTC", "UTC", "UTC", "Asia/Jerusalem", "America/New_York", "Asia/Kathmandu"]),
        )
    return build


def _resolvable(a):
    if "ir" in a:
        a["ir"]["off"] = True
        a["ir"]["density"] = 100
        a["ir"].pop("lonely_min", None)     # shapes for C15/C16 only: with them some requests have no stored key at all
        a["ir"].pop("auto_temps", None)
        a["ir"].pop("d1_only_prefixed", None)
    return a


def subchecks(tier):
    n = 40_000 if tier == "thorough" else 500
    shards = 16 if tier == "thorough" else 1
    subs = []
    for kind in ops.KINDS:
        nn = n if not kind.startswith("breeze") else n // 2
        subs.append(Sub(f"op={kind}", make_body(f"op={kind}"), strategy=strat_for(kind), n=nn, shards=shards))
    subs.append(Sub("crafted-signature-tail", make_body("crafted-signature-tail"), cases=cases_crafted, shards=4, exhaustive=True))
    subs.append(Sub("slow-device", body_slow, cases=cases_slow(tier), shards=4, exhaustive=True))
    subs.append(Sub("histories", lambda rep, case: net.run(run_history(rep, case, "histories")), strategy=strat_history,
                    n=20_000 if tier == "thorough" else 250, shards=16 if tier == "thorough" else 2))
    subs.append(Sub("odd-replies", body_odd, strategy=strat_odd, n=30_000 if tier == "thorough" else 600, shards=16 if tier == "thorough" else 4))
    return subs
