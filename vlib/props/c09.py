"""C09 - no device reply can crash the client or be mistaken for success."""
import hashlib

from hypothesis import strategies as st

from .. import gen
from ..engine import Inconclusive, Sub, Violation
from ..fake import env, net, ops
from ..ref import wire
from . import c03

PROP = "C09"
LEVEL = "fault_enumeration"
DESIGN_REF = "DESIGN.md section 3, C09"
TECHNIQUE = "fault injection at every step of every operation's exchange: exhaustive prefix-length x step grid for the state/login replies, Hypothesis-generated garbage (1..1024 bytes) and single-field corruptions, against a fake device; oracle on exception type, success flag and the device's frame log"
LEVEL_TEXT = ("For each of the 16 operation variants and each step of its exchange the fake device answers with nothing (EOF), "
              "every proper prefix of the valid reply, generated garbage, or a valid reply with one corrupted field; earlier steps "
              "get valid replies. State queries must return the documented response class or raise RuntimeError and nothing else; "
              "generic responses must report success iff the last reply was non-empty; an empty login reply must make state "
              "queries and all type-2 operations raise RuntimeError with exactly one frame on the wire. The prefix x step grid "
              "is enumerated completely; garbage is sampled.")
RULE = ("case = (operation, step of the exchange, fault reply); fault alphabet {EOF, one empty read while the stream goes on, the request echoed back, NUL bytes only, prefix of length 1..len-1, pattern bytes "
        "of length 1..1024, single corrupted field}; non-trivial = fault other than EOF, or EOF at a step > 1; distinct by "
        "(kind, step, fault)."
        ' Cases optionally run 0..3 good operations on the same connection first, carry a virtual clock up to 2^32 s, and the fault alphabet includes the request echoed back. slow-device: every step of every state query answered correctly but 6 s .. 25 h late (harness-owned event-loop clock), with and without retries; Cases optionally let the connection sit idle for 16 s .. 1 h (harness-owned clocks, which the monotonic clock seen by the library follows) before the faulty exchange; frames on a connection the client opened on its own are counted too. repeated-empty-login: 70 (thorough 300) consecutive empty login replies for one device id in one process, for every state query and type-2 operation.')
ASSUMPTIONS = [
    "an empty reply is modelled as the device half-closing the connection (reader.read returns b'' only at EOF); later reads are empty too",
    "connection resets are outside the fault alphabet",
    "get_schedules on garbage and the exception type of thermostat control after a garbage state reply are not asserted (the statement is silent)",
    "for generic operations RuntimeError is accepted when some reply of the exchange was empty; any other exception is a violation",
]

STATE_QUERIES = {"get_state": "SwitcherStateResponse", "get_shutter_state": "SwitcherShutterStateResponse",
                 "get_breeze_state": "SwitcherThermostatStateResponse"}
GENERIC1 = ["control_on", "control_off", "set_auto_shutdown", "set_device_name", "delete_schedule", "create_schedule"]
GENERIC2 = ["stop", "set_position"]
BREEZE = ["breeze_command", "breeze_swing_only", "breeze_status", "breeze_command_swing"]


def pattern(n, seed):
    out = bytearray()
    i = 0
    while len(out) < n:
        out += hashlib.blake2b(f"{seed}/{i}".encode(), digest_size=64).digest()
        i += 1
    return bytes(out[:n])


CORRUPTIONS = {
    # reply kind -> [(name, offset, bytes)]
    "state1": [("state=02", 75, b"\x02"), ("state=ff", 75, b"\xff"), ("time_left>=24h", 89, (86400).to_bytes(4, "little")),
               ("time_on=2^32-1", 93, b"\xff\xff\xff\xff"), ("auto_shutdown>=24h", 97, (90000).to_bytes(4, "little"))],
    "shutter": [("direction=0101", 78, b"\x01\x01"), ("direction=ffff", 78, b"\xff\xff"), ("direction=0200", 78, b"\x02\x00")],
    "thermostat": [("remote-id-invalid-utf8", 84, b"\xff\xfe\xfd"), ("fan-nibble=7", 81, b"\x70"), ("mode=9", 79, b"\x09"),
                   ("mode=0", 79, b"\x00"), ("state=7", 78, b"\x07"), ("swing-nibble=9", 81, b"\x19")],
}


def reply_kind(kind, step):
    if step == 0:
        return "login"
    fk = ops.FRAMES[kind][step - 1]
    if fk == "get_state1":
        return "state1"
    if fk == "get_state2":
        return "shutter" if kind == "get_shutter_state" else "thermostat"
    return "ack"


def apply_fault(valid, fault, rk):
    t = fault["type"]
    if t in ("eof", "empty-read"):
        return None
    if t == "prefix":
        return valid[:fault["n"]]
    if t == "pattern":
        return pattern(fault["len"], fault["seed"])
    if t == "zeros":
        return bytes(fault["len"])            # a non-empty reply made of NUL bytes only
    if t == "echo":
        return b"<the request itself>"
    if t == "slow":
        return valid
    if t == "corrupt":
        name, off, data = CORRUPTIONS[rk][fault["index"] % len(CORRUPTIONS[rk])]
        b = bytearray(valid)
        b[off:off + len(data)] = data
        return bytes(b)
    raise KeyError(t)


async def exchange(case):
    dev = await env.device()
    kind, a, step = case["kind"], case["args"], case["step"]
    cl = ops.Client(dev, ops.api_type(kind), case.get("device_id", "a1b2c3"), "18")
    await cl.connect()
    try:
        # earlier operations on the same connection that went well (a client may remember something from them)
        for j, pk in enumerate(case.get("pre", [])):
            pa = c03.CANON_ARGS[pk]
            cl.conn.script.clear()
            cl.conn.script.extend(ops.good_script(pk, pa, f"5e55{j:02x}0{j + 1}", salt=20 + j))
            st_, _ = await cl.call(pk, pa)
            if st_ != "ok":
                return "skip", None, [], [], None
        cl.conn.script.clear()
        if case.get("idle_before"):
            # the connection sits unused for a while (harness-owned clocks: loop time and the library's monotonic clock)
            await net.idle(case["idle_before"])
        nbefore = len(cl.conn.frames)
        nconns = len(dev.conns)
        script = ops.good_script(kind, a, case.get("session", "0a0b0c0d"), salt=case.get("salt", 1))
        rk = reply_kind(kind, step)
        data = apply_fault(script[step]["data"], case["fault"], rk)
        transient = case["fault"]["type"] == "empty-read"
        if transient:
            # one read() yields b'' while the stream goes on (the unit tests' notion of an empty reply); injected on
            # asyncio.StreamReader.read for this connection only (tcpdev.install_empty_read_injector)
            from ..fake import tcpdev
            tcpdev.install_empty_read_injector()
            tcpdev.EMPTY_READS[cl.conn.peer] = {"k": step, "count": 0}
        elif case["fault"]["type"] == "slow":
            script[step]["sleep"] = case["fault"]["secs"]       # the right reply, late (event-loop time, harness-owned clock)
        elif case["fault"]["type"] == "echo":
            script[step] = {"echo": True}
        else:
            script[step] = {"eof": True} if data is None else {"data": data}
        dev.set_script(script)
        from .. import vclock
        with vclock.frozen_epoch("UTC", case.get("ts", 1_700_000_000)):
            status, res = await cl.call(kind, a, timeout=40.0 + 2 * case["fault"].get("secs", 0))
            if case["fault"]["type"] == "slow" and status != "ok":
                import asyncio
                await asyncio.sleep(case["fault"]["secs"] + 1)      # let the device finish its late answer
                await cl.settle()
        if transient:
            from ..fake import tcpdev as _t
            if not _t.EMPTY_READS.get(cl.conn.peer, {}).get("hit"):
                return "skip", None, [], [], None       # the client never made that read(): nothing was injected
        sent = list(cl.conn.sent)
        frames = list(cl.conn.frames[nbefore:])
        for other in dev.conns[nconns:]:
            frames += list(other.frames)          # frames written on a connection the client opened on its own count too
        # the caller tries again on the same object (state queries only): whatever the connection is worth by now, the
        # retry must again end in a response or a RuntimeError
        for _ in range(case.get("retries", 0)):
            if kind in STATE_QUERIES:
                st2, res2 = await cl.call(kind, a)
                if st2 == "raise" and not isinstance(res2, RuntimeError):
                    return "retry-raise", res2, frames, sent, data
        return status, res, frames, sent, data
    finally:
        from ..fake import tcpdev as _t
        _t.EMPTY_READS.pop(cl.conn.peer if cl.conn else None, None)
        await cl.close()


def body_slow(rep, case):
    """The device answers one step correctly but seconds to hours late.  A state query may wait and return the parsed
    response, or give up with RuntimeError - nothing else; asked again on the same connection it must again end in one
    of the two."""
    kind, step, fault = case["kind"], case["step"], case["fault"]
    with net.virtual_time():
        status, res, frames, sent, data = net.run(exchange(case))
    rep.tick("slow-device", key=(kind, step, fault), nontrivial=True, sample=case, labels=(f"op={kind}", f"step={step}"))
    ftag = f"slow@step{step}"
    if status == "retry-raise":
        raise Violation(f"C09/state-query-retry-raises-{type(res).__name__}/op={kind}/after-slow-reply", case,
                        "a parsed response or RuntimeError", f"{type(res).__name__}: {res}")
    if status == "timeout":
        # the harness guard (40 s + twice the delay, on the harness-owned clock) expired: the query never ended
        raise Inconclusive(f"{kind}: no completion within the harness guard after a reply delayed by {fault['secs']} s")
    if status == "raise":
        if not isinstance(res, RuntimeError):
            raise Violation(f"C09/state-query-raises-{type(res).__name__}/op={kind}/{ftag}", case,
                            "a parsed response or RuntimeError", f"{type(res).__name__}: {res}")
        rep.label("gave-up-on-slow-device")
    elif type(res).__name__ != STATE_QUERIES[kind]:
        raise Violation(f"C09/state-query-returns-{type(res).__name__}/op={kind}/{ftag}", case, STATE_QUERIES[kind], repr(res)[:200])


def cases_slow(tier):
    def gen_cases():
        out = []
        secs = [6, 11, 31, 61, 3601] + ([2, 4, 16, 121, 301, 901, 90_000] if tier == "thorough" else [])
        for kind in STATE_QUERIES:
            for step in range(nsteps(kind)):
                for sc in secs:
                    for retries in (0, 2):
                        out.append({"kind": kind, "args": {}, "step": step, "fault": {"type": "slow", "secs": sc}, "retries": retries})
        return out
    return gen_cases


async def empty_logins(case):
    """The same device (one id) answers the login with nothing, n times in a row in this process (a device that is down):
    every single call must raise RuntimeError after exactly one frame."""
    dev = await env.device()
    kind, a = case["kind"], c03.CANON_ARGS[case["kind"]]
    for i in range(case["n"]):
        cl = ops.Client(dev, ops.api_type(kind), case["device_id"], "18")
        await cl.connect()
        try:
            dev.set_script([{"eof": True}])
            status, res = await cl.call(kind, a)
            frames = len(cl.conn.frames)
        finally:
            await cl.close()
        if status != "raise" or not isinstance(res, RuntimeError) or frames != 1:
            return i, status, res, frames
    return None


def body_empty_logins(rep, case):
    bad = net.run(empty_logins(case), timeout=300)
    rep.tick("repeated-empty-login", key=case, nontrivial=True, sample=case, n=case["n"], labels=(f"op={case['kind']}",))
    if bad is not None:
        i, status, res, frames = bad
        raise Violation(f"C09/empty-login-not-fatal/op={case['kind']}/after-many-in-a-row", dict(case, failing_call=i + 1),
                        "RuntimeError and exactly one frame", {"call": i + 1, "outcome": f"{status}: {res!r}"[:160], "frames": frames})


def cases_empty_logins(tier):
    def gen_cases():
        n = 300 if tier == "thorough" else 70
        kinds = list(STATE_QUERIES) + GENERIC2 + BREEZE
        return [{"kind": k, "n": n, "device_id": f"d0{j:02x}e1"} for j, k in enumerate(kinds)]
    return gen_cases


def body(rep, case, sub=None):
    kind, step, fault = case["kind"], case["step"], case["fault"]
    status, res, frames, sent, data = net.run(exchange(case))
    if status == "skip":
        rep.label("skipped(empty-read-not-reached-or-pre-op-failed)")
        return
    if status == "retry-raise":
        raise Violation(f"C09/state-query-retry-raises-{type(res).__name__}/op={kind}", case, "a parsed response or RuntimeError",
                        f"{type(res).__name__}: {res}")
    if case.get("pre"):
        rep.label("after-earlier-successful-operations")
    transient = fault["type"] == "empty-read"
    eof = fault["type"] in ("eof", "empty-read")
    nt = (not eof) or step > 0
    rep.tick(sub or f"{fault['type']}", key=(kind, step, fault, case.get("pre")), nontrivial=nt, sample=case,
             labels=(f"fault={fault['type']}", f"step={step}", f"op={kind}"))
    ftag = f"{fault['type']}@step{step}"
    if status == "timeout":
        raise Violation(f"C09/hang/op={kind}/{ftag}", case, "completes", "timeout")
    exc = res if status == "raise" else None
    any_empty = eof
    # replies the client actually consumed last: after an EOF every later read is empty as well
    if transient:
        last_step = nsteps(kind) - 1
        # the call's last read is empty only if the fault sits on the last step it reaches
        last_nonempty = step != last_step
        any_empty = True
    elif eof:
        last_nonempty = False
    else:
        last = sent[-1] if sent else b""
        last_nonempty = last != "EOF" and len(last) > 0
    login_empty = eof and step == 0

    if kind in STATE_QUERIES:
        if exc is not None:
            if not isinstance(exc, RuntimeError):
                raise Violation(f"C09/state-query-raises-{type(exc).__name__}/op={kind}/{ftag}", case,
                                "a parsed response or RuntimeError", f"{type(exc).__name__}: {exc}")
        else:
            if type(res).__name__ != STATE_QUERIES[kind]:
                raise Violation(f"C09/state-query-returns-{type(res).__name__}/op={kind}/{ftag}", case,
                                STATE_QUERIES[kind], repr(res)[:200])
            if eof:
                raise Violation(f"C09/state-query-succeeds-on-empty-reply/op={kind}/{ftag}", case, "RuntimeError", repr(res)[:200])
        if login_empty and (exc is None or len(frames) != 1):
            raise Violation(f"C09/empty-login-not-fatal/op={kind}", case, "RuntimeError and exactly one frame",
                            {"outcome": repr(exc or res)[:120], "frames": len(frames)})
        return

    if kind in GENERIC1 + GENERIC2 + ["get_schedules"]:
        if ops.api_type(kind) == 2 and login_empty:
            if not isinstance(exc, RuntimeError) or len(frames) != 1:
                raise Violation(f"C09/empty-login-not-fatal/op={kind}", case, "RuntimeError and exactly one frame",
                                {"outcome": repr(exc or res)[:120], "frames": len(frames)})
            return
        if exc is not None:
            if kind == "get_schedules" and not eof:
                return  # garbage into the schedule parser: statement is silent
            if isinstance(exc, RuntimeError) and any_empty:
                return
            raise Violation(f"C09/generic-op-raises-{type(exc).__name__}/op={kind}/{ftag}", case,
                            "a response object", f"{type(exc).__name__}: {exc}")
        ok = getattr(res, "successful", None)
        if ok is not last_nonempty:
            raise Violation(f"C09/success-flag/op={kind}/{ftag}", case, {"successful": last_nonempty},
                            {"successful": ok, "last_reply_len": None if eof else len(data)})
        return

    # thermostat control
    if login_empty:
        if not isinstance(exc, RuntimeError) or len(frames) != 1:
            raise Violation(f"C09/empty-login-not-fatal/op={kind}", case, "RuntimeError and exactly one frame",
                            {"outcome": repr(exc or res)[:120], "frames": len(frames)})
        return
    if exc is None:
        ok = getattr(res, "successful", None)
        if ok is not last_nonempty:
            raise Violation(f"C09/success-flag/op={kind}/{ftag}", case, {"successful": last_nonempty}, {"successful": ok})
    elif eof and not isinstance(exc, RuntimeError):
        raise Violation(f"C09/breeze-control-raises-{type(exc).__name__}/op={kind}/{ftag}", case,
                        "RuntimeError or an unsuccessful response", f"{type(exc).__name__}: {exc}")


# -- case generation ----------------------------------------------------------------------------

def nsteps(kind):
    return 1 + len(ops.FRAMES[kind])


def cases_grid(tier):
    def gen_cases():
        out = []
        for kind in ops.KINDS:
            a = c03.CANON_ARGS[kind]
            script = ops.good_script(kind, a, "0a0b0c0d", salt=1)
            for step in range(nsteps(kind)):
                out.append({"kind": kind, "args": a, "step": step, "fault": {"type": "eof"}})
                out.append({"kind": kind, "args": a, "step": step, "fault": {"type": "empty-read"}})
                out.append({"kind": kind, "args": a, "step": step, "fault": {"type": "echo"}, "ts": 2 ** 31 + 5000 + step})
                for zl in (1, 48, len(script[step]["data"])):
                    out.append({"kind": kind, "args": a, "step": step, "fault": {"type": "zeros", "len": zl}})
                pre = ["get_state", "control_on"] if ops.api_type(kind) == 1 else ["get_shutter_state", "set_position"]
                out.append({"kind": kind, "args": a, "step": step, "fault": {"type": "eof"}, "pre": pre[:1], "retries": 2})
                out.append({"kind": kind, "args": a, "step": step, "fault": {"type": "eof"}, "pre": pre[:1], "idle_before": 20 + 3600 * (step % 2)})
                out.append({"kind": kind, "args": a, "step": step, "fault": {"type": "empty-read"}, "pre": pre})
                rk = reply_kind(kind, step)
                n = len(script[step]["data"])
                if tier == "thorough" or kind in STATE_QUERIES or kind in ("control_on", "stop", "breeze_command_swing", "get_schedules"):
                    lens = range(1, n)
                else:
                    lens = sorted(set([1, 2, 7, 8, 9, 11, 12, 13, n - 1]) & set(range(1, n)))
                for k in lens:
                    out.append({"kind": kind, "args": a, "step": step, "fault": {"type": "prefix", "n": k}})
                for i in range(len(CORRUPTIONS.get(rk, []))):
                    out.append({"kind": kind, "args": a, "step": step, "fault": {"type": "corrupt", "index": i}})
        return out
    return gen_cases


def strat_garbage():
    def for_kind(kind):
        lens = st.one_of(st.integers(1, 12), st.integers(1, 1024), st.sampled_from([1, 43, 44, 45, 99, 100, 101, 106, 107, 108, 109, 110, 1023, 1024]))
        fault = st.one_of(
            st.tuples(lens, st.integers(0, 10 ** 9)).map(lambda t: {"type": "pattern", "len": t[0], "seed": t[1]}),
            st.just({"type": "eof"}),
            st.sampled_from([1, 2, 4, 12, 44, 48, 100, 109, 1024]).map(lambda n: {"type": "zeros", "len": n}),
            st.just({"type": "empty-read"}),
            st.just({"type": "echo"}),
            st.integers(0, 5).map(lambda i: {"type": "corrupt", "index": i}),
        )
        same = ops.KINDS1 if ops.api_type(kind) == 1 else [k for k in ops.KINDS2]
        pre = st.one_of(st.just([]), st.lists(st.sampled_from(same), min_size=1, max_size=3))
        return st.builds(lambda a, step, f, salt, sess, pr, ts: _fit(dict({"kind": kind, "args": a, "step": step, "fault": f, "salt": salt,
                                                                        "session": sess, "ts": ts, "retries": salt % 3},
                                                                       **({"pre": pr} if pr else {}),
                                                                       **({"idle_before": [16, 61, 3601][salt % 3]} if salt % 4 == 0 else {}))),
                         gen.op_args(kind).map(c03._resolvable), st.integers(0, nsteps(kind) - 1), fault, st.integers(1, 100), gen.sessions, pre,
                         gen.timestamps)
    return st.sampled_from(ops.KINDS).flatmap(for_kind)


def _fit(case):
    rk = reply_kind(case["kind"], case["step"])
    if case["fault"]["type"] == "corrupt" and rk not in CORRUPTIONS:
        case["fault"] = {"type": "pattern", "len": 1 + case["fault"]["index"] * 9, "seed": case["salt"]}
    return case


def subchecks(tier):
    big = tier == "thorough"
    return [
        Sub("grid", lambda rep, case: body(rep, case, "grid"), cases=cases_grid(tier), shards=16, exhaustive=True),
        Sub("garbage", lambda rep, case: body(rep, case, "garbage"), strategy=strat_garbage, n=300_000 if big else 8000,
            shards=16 if big else 4),
        Sub("slow-device", body_slow, cases=cases_slow(tier), shards=4, exhaustive=True),
        Sub("repeated-empty-login", body_empty_logins, cases=cases_empty_logins(tier), shards=4, exhaustive=False),
    ]
