"""C16 - thermostat control changes only what was asked."""
import hashlib

from hypothesis import strategies as st

from .. import gen, vclock
from ..engine import Sub, Violation
from ..fake import env, net, ops
from ..ref import irset, replies, wire

PROP = "C16"
LEVEL = "exploration"
DESIGN_REF = "DESIGN.md section 3, C16"
TECHNIQUE = "model-based testing of control_breeze_device against the fake device: generated current state x subset of requested settings x remote kind x update-only flag x injected empty reply; the captured frame list must equal, byte for byte, the frames a reference merge model + reference IR lookup + reference frame layout produce"
LEVEL_TEXT = ("The device reports a generated thermostat state; the call passes any subset of {state, mode, target, fan, swing}; the "
              "reference computes merged = requested-or-reported, the swing rule of separate-swing remotes, the IR text via the C15 "
              "reference and the exact frames (login, get-state, command or status frame, optional swing command). Everything the "
              "client wrote is compared byte for byte; with an empty reply at any step the call must raise RuntimeError or return "
              "an unsuccessful response. Thorough enumerates the full state x subset x remote-kind x flag grid with one value draw each.")
RULE = ("case = (IR-set spec, reported state, requested subset with values, update-only flag, fault step or none, ids, session, time); "
        "non-trivial = at least one setting omitted and at least one given; distinct by the whole case."
        ' A third of the non-fault cases run an earlier control call on the same API and remote objects first (clock gap 0, 1 or 60 s); half of the fault cases use one empty read while the stream goes on instead of an EOF. A third of the non-fault cases build the remote object right after another remote object (a sparser sibling set) was used and dropped (churn); a quarter run while a bridge in the same loop has just heard the same thermostat broadcast a different state (bridge_heard). slow-device: a device that answers by request kind, 0.3 s per answer, with one answer 2 s .. 1 h late under the harness-owned loop clock, optionally followed by a step that gets no answer.')
ASSUMPTIONS = [
    "thermostat state-reply layout and frame layouts of DESIGN appendix A; IR lookup semantics of C15's reference (cases it leaves unspecified are skipped)",
    "target_temp=0 and None mean 'omitted' (the API's defaults)",
    "an empty reply is an EOF from the device (real socket semantics) or, in half of the fault cases, a single read() that yields b'' while the stream goes on (the unit tests' notion; injected on asyncio.StreamReader.read for that connection; skipped if the client never makes that read)",
]

SETTINGS = ["state", "mode", "target", "fan", "swing"]


def merged_of(cur, req):
    return {
        "on": cur["on"] if req.get("state") is None else req["state"],
        "mode": cur["mode"] if req.get("mode") is None else req["mode"],
        "target": req["target"] if req.get("target") else cur["target"],
        "fan": cur["fan"] if req.get("fan") is None else req["fan"],
        "swing": cur["swing"] if req.get("swing") is None else req["swing"],
    }


def model(case):
    """-> ("skip", why) | ("raise-login-only",) | ("frames", [frame bytes], outcome) with outcome 'ok' or 'RuntimeError'."""
    spec, cur, req, update = case["ir"], case["cur"], case["req"], case.get("update", False)
    ir = irset.expand(spec)
    special = spec["id"] in irset.SPECIAL_SWING_IDS
    base = {"device_id": case["device_id"], "session": case["session"], "ts": case["ts"]}
    frames = [wire.build("login2", {"device_id": case["device_id"], "ts": case["ts"]})]
    given = {k: (req.get(k) is not None and (k != "target" or req.get(k) != 0)) for k in SETTINGS}
    main = given["state"] or given["mode"] or given["target"] or given["fan"] or (given["swing"] and not special)
    outcome = None
    if main:
        frames.append(wire.build("get_state2", base))
        m = merged_of(cur, req)
        swing_main = False if special else m["swing"]
        if update:
            frames.append(wire.build("breeze_status", dict(base, state=1 if m["on"] else 0, mode=irset.MODE_BYTE[m["mode"]],
                                                           target=m["target"], fan=m["fan"], swing=1 if swing_main else 0)))
        else:
            ref = irset.lookup(ir, m["on"], m["mode"], m["target"], m["fan"], swing_main, cur["on"])
            if ref[0] == "unspecified":
                return ("skip", ref[1])
            if ref[0] == "error":
                return ("frames", frames, "RuntimeError")
            frames.append(wire.build("breeze_command", dict(base, text=ref[2])))
        outcome = "ok"
    if special and given["swing"] and not update:
        ref = irset.swing_lookup(ir, req["swing"])
        if ref[0] != "ok":
            return ("frames", frames, "RuntimeError")
        frames.append(wire.build("breeze_command", dict(base, text=ref[2])))
        outcome = "ok"
    if outcome is None:
        return ("frames", frames, "RuntimeError")
    return ("frames", frames, "ok")


def script_for(case, nframes):
    out = [{"data": replies.login(case["session"], 44, case.get("salt", 1))}]
    out.append({"data": ops.thermostat_reply(case["cur"], salt=case.get("salt", 1) + 1)})
    for i in range(4):
        out.append({"data": replies.ack(48 + i, case.get("salt", 1) + 2 + i)})
    return out


async def exchange(case, script):
    dev = await env.device()
    cl = ops.Client(dev, 2, case["device_id"], "18")
    rig = None
    await cl.connect()
    try:
        nbefore = 0
        first = case.get("first")
        if first:
            # an earlier control call on the same API object and remote object: nothing of it may survive into the next
            dev.set_script(script_for(dict(case, cur=first["cur"]), 4))
            remote0, _ = ops.remote_for(case["ir"])
            kw0 = ops.breeze_kwargs(first["req"])
            if first.get("update"):
                kw0["update_state"] = True
            import asyncio as _aio
            with vclock.frozen_epoch("UTC", case["ts"] - first.get("gap", 60)):
                try:
                    await _aio.wait_for(cl.api.control_breeze_device(remote0, **kw0), 20)
                except Exception:
                    pass
                await cl.settle()
            nbefore = len(cl.conn.frames)
        if isinstance(script, dict):
            cl.conn.responder = script["responder"]
        else:
            dev.set_script(script)
        k = case.get("empty_read")
        if k is not None:
            # "empty reply" in the sense the unit tests use: one read() yields b'' although the stream goes on.
            # Injected on asyncio.StreamReader.read for this connection only (tcpdev.install_empty_read_injector).
            from ..fake import tcpdev
            tcpdev.install_empty_read_injector()
            tcpdev.EMPTY_READS[cl.conn.peer] = {"k": k, "count": 0}
        if case.get("bridge_heard"):
            # a bridge runs in the same loop and has just heard this very thermostat (same id, same address) broadcast a
            # DIFFERENT state: "the value the device itself just reported" is still the one in the reply to this call's query
            from ..fake import udptx
            from ..ref import broadcast as refb
            cur = case["cur"]
            rig = udptx.Rig(1)
            await rig.start()
            other = {"model": "0e01", "device_id": case["device_id"], "key": 0x18, "name": "Breeze", "ip": [int(x) for x in dev.ip.split(".")],
                     "mac": [2, 0, 0, 0, 0, 7], "on": not cur["on"], "mode": 1 + (irset.MODE_BYTE[cur["mode"]] % 5),
                     "target": 16 + (cur["target"] + 3) % 15, "fan": (cur["fan"] + 1) % 4, "swing": 0 if cur["swing"] else 1,
                     "temp_tenths": 199, "remote_id": cur.get("remote_id", "ELEC7001")}
            try:
                await rig.send(rig.ports[0], refb.encode(other))
                await rig.barrier()
            except Exception:
                pass
        remote, _ = ops.remote_for(case["ir"])
        if case.get("churn"):
            # another remote object (a sparser sibling of this code set) lived and died in this process just before this one
            # was built: nothing it worked out may be inherited by a later object that happens to get its address
            from aioswitcher.api.remotes import SwitcherBreezeRemote
            d_ = ops.enums()
            sib = dict(case["ir"], density=20 + case["ir"]["seed"] % 30, seed=case["ir"]["seed"] + 1)
            sib.pop("lonely_min", None), sib.pop("auto_temps", None), sib.pop("d1_only_prefixed", None)
            set_prev, set_now = irset.expand(sib), irset.expand(case["ir"])
            r0 = SwitcherBreezeRemote(set_prev)
            for md in d_.ThermostatMode:
                for tt in (case["cur"]["target"], case["req"].get("target") or 24):
                    for fl in d_.ThermostatFanLevel:
                        for sw in d_.ThermostatSwing:
                            for stt in d_.DeviceState:
                                try:
                                    r0.build_command(stt, md, tt, fl, sw, d_.DeviceState.ON if case["cur"]["on"] else d_.DeviceState.OFF)
                                except Exception:
                                    pass
            del r0
            remote = SwitcherBreezeRemote(set_now)
        kw = ops.breeze_kwargs(case["req"])
        if case.get("update"):
            kw["update_state"] = True
        with vclock.frozen_epoch("UTC", case["ts"]):
            import asyncio
            slow_secs = (case.get("slow") or {}).get("secs", 0)
            out = await ops.guarded(cl.api.control_breeze_device(remote, **kw), 20 + 2 * slow_secs)
            if case.get("slow") and out[0] != "ok":
                await asyncio.sleep(case["slow"]["secs"] + 1)
            await cl.settle()
        if k is not None:
            if not tcpdev.EMPTY_READS.get(cl.conn.peer, {}).get("hit"):
                return "skip", None, []           # the client never made that read(): nothing was injected
        return out[0], out[1], list(cl.conn.frames[nbefore:])
    finally:
        if rig is not None:
            try:
                await rig.stop()
            except Exception:
                pass
        from ..fake import tcpdev as _t
        _t.EMPTY_READS.pop(cl.conn.peer if cl.conn else None, None)
        await cl.close()


def body_slow(rep, case):
    """One step answered correctly but late (event-loop time, harness-owned clock), optionally followed by a step that
    gets no answer at all.  The call may wait or give up; it must not report success when a step went unanswered, and if
    it does report success the command / status frames it sent are the model's."""
    mdl = model(case)
    if mdl[0] == "skip":
        rep.label("unspecified-by-C15-skipped")
        return
    exp_frames, exp_outcome = mdl[1], mdl[2]
    slow, fault = case["slow"], case.get("fault")
    if slow["step"] >= len(exp_frames) or (fault is not None and (fault >= len(exp_frames) or fault <= slow["step"])):
        rep.label("fault-step-beyond-exchange-skipped")
        return
    # the device answers by request: every login with the login reply, every state query with its state, every command
    # with an acknowledgement - so a client that asks twice gets two answers, as from a real device
    positional = script_for(case, len(exp_frames))
    kinds = [wire.classify(f) for f in exp_frames]

    def target(step):
        return (kinds[step], kinds[:step + 1].count(kinds[step]))
    slow_at, eof_at = target(slow["step"]), (target(fault) if fault is not None else None)
    seen = {}

    def responder(frame):
        k = wire.classify(frame) if len(frame) >= 44 else "short"
        seen[k] = seen.get(k, 0) + 1
        if eof_at == (k, seen[k]):
            return {"eof": True}
        if k.startswith("login"):
            r = dict(positional[0])
        elif k == "get_state2":
            r = dict(positional[1])
        else:
            r = dict(positional[2 + (seen[k] - 1) % 4])
        # a real device needs some milliseconds per answer: two answers never arrive in one segment
        r["sleep"] = slow["secs"] if slow_at == (k, seen[k]) else 0.3
        return r
    script = {"responder": responder}
    special = case["ir"]["id"] in irset.SPECIAL_SWING_IDS
    rep.tick("slow-device", key=case, nontrivial=True, sample=case,
             labels=(f"late@step{slow['step']}", f"eof@step{fault}" if fault is not None else "no-eof"))
    with net.virtual_time():
        status, res, frames = net.run(exchange(case, script))
    tag = ("special" if special else "ordinary") + ("/update" if case.get("update") else "/command")
    if status != "ok":
        rep.label("gave-up-or-raised")
        return
    if fault is not None:
        if getattr(res, "successful", None) is not False:
            raise Violation(f"C16/empty-reply/reports-success/step{fault}/after-late-reply/{tag}", case,
                            "RuntimeError or unsuccessful response", repr(res)[:160])
        return
    if exp_outcome == "ok":
        want = [f for f in exp_frames if wire.classify(f) in ("breeze_command", "breeze_status")]
        got = [f for f in frames if len(f) >= 44 and wire.classify(f) in ("breeze_command", "breeze_status")]
        if want != got:
            raise Violation(f"C16/command-frames-after-late-reply/{tag}", case, [f.hex() for f in want], [f.hex() for f in got])
    else:
        raise Violation(f"C16/expected-RuntimeError/{tag}/after-late-reply", case, "RuntimeError", repr(res)[:160])


def strat_slow():
    base = strat(True, True)()
    return st.builds(lambda c, step, secs, eof: dict({k: v for k, v in c.items() if k not in ("empty_read",)},
                                                     slow={"step": step, "secs": secs}, fault=eof),
                     base, st.integers(0, 2), st.sampled_from([2, 4, 6, 11, 31, 61, 3601]), st.one_of(st.none(), st.integers(1, 3)))


def classify_req(case):
    req = case["req"]
    given = [k for k in SETTINGS if req.get(k) is not None and (k != "target" or req.get(k) != 0)]
    return given


def body(rep, case, sub="dense"):
    mdl = model(case)
    given = classify_req(case)
    special = case["ir"]["id"] in irset.SPECIAL_SWING_IDS
    nt = 0 < len(given) < 5
    labels = [f"given={len(given)}", "special-swing-remote" if special else "ordinary-remote",
              "toggle" if case["ir"]["toggle"] else "non-toggle", "update-only" if case.get("update") else "ir-command"]
    if case.get("churn"):
        labels.append("remote-built-after-another-died")
    if case.get("bridge_heard"):
        labels.append("a-bridge-in-the-loop-heard-another-state")
    fault = case.get("fault")
    if fault is not None:
        labels.append(f"eof@step{fault}")
    empty_read = case.get("empty_read")
    if empty_read is not None:
        labels.append(f"empty-read@step{empty_read}")
    if case.get("first"):
        labels.append("second-call-on-same-object")
    if mdl[0] == "skip":
        rep.label("unspecified-by-C15-skipped")
        return
    exp_frames, exp_outcome = mdl[1], mdl[2]
    script = script_for(case, len(exp_frames))
    if fault is not None:
        if fault >= len(exp_frames):
            rep.label("fault-step-beyond-exchange-skipped")
            return
        script[fault] = {"eof": True}
    if empty_read is not None and empty_read >= len(exp_frames):
        rep.label("fault-step-beyond-exchange-skipped")
        return
    rep.tick(sub, key=case, nontrivial=nt, sample=case, labels=labels)
    status, res, frames = net.run(exchange(case, script))
    if status == "skip":
        rep.label("empty-read-not-reached-skipped")
        return
    if empty_read is not None:
        if status == "raise":
            if not isinstance(res, RuntimeError):
                raise Violation(f"C16/empty-reply/raises-{type(res).__name__}/step{empty_read}", case,
                                "RuntimeError or unsuccessful response", f"{type(res).__name__}: {res}")
        elif status == "ok" and getattr(res, "successful", None) is not False:
            raise Violation(f"C16/empty-reply/reports-success/step{empty_read}/" + ("special" if special else "ordinary"), case,
                            "RuntimeError or unsuccessful response", repr(res)[:160])
        return
    tag = ("special" if special else "ordinary") + ("/update" if case.get("update") else "/command")
    if status == "timeout":
        raise Violation(f"C16/hang/{tag}", case, "completes", "timeout")
    if fault is not None:
        if status == "raise":
            if not isinstance(res, RuntimeError):
                raise Violation(f"C16/empty-reply/raises-{type(res).__name__}/step{fault}", case,
                                "RuntimeError or unsuccessful response", f"{type(res).__name__}: {res}")
        elif getattr(res, "successful", None) is not False:
            raise Violation(f"C16/empty-reply/reports-success/step{fault}/{tag}", case, "RuntimeError or unsuccessful response",
                            repr(res)[:160])
        # frames written before the fault are still the model's
        for i, f in enumerate(frames[:fault + 1]):
            if i < len(exp_frames) and f != exp_frames[i]:
                raise Violation(f"C16/frame{i}-mismatch-before-fault/{tag}", case, exp_frames[i].hex(), f.hex())
        return
    if exp_outcome == "RuntimeError":
        if status != "raise" or not isinstance(res, RuntimeError):
            raise Violation(f"C16/expected-RuntimeError/{tag}/given={'+'.join(given) or 'nothing'}", case, "RuntimeError",
                            f"{status}: {res!r}"[:200])
    else:
        if status != "ok":
            raise Violation(f"C16/unexpected-{type(res).__name__}/{tag}", case, "a successful response", f"{type(res).__name__}: {res}")
        if getattr(res, "successful", None) is not True:
            raise Violation(f"C16/not-successful/{tag}", case, True, repr(res)[:160])
    if exp_outcome == "RuntimeError" and len(frames) < len(exp_frames):
        # nothing actionable: the statement only says the call raises - it may refuse before asking the device anything.
        # What was written must still be the beginning of the model's list (login, state query) and never a command.
        exp_frames = exp_frames[:len(frames)]
    if len(frames) != len(exp_frames):
        kinds = [wire.classify(f) if len(f) >= 44 else "short" for f in frames]
        raise Violation(f"C16/frame-list/{tag}/given={'+'.join(given) or 'nothing'}", case,
                        [wire.classify(f) for f in exp_frames], kinds)
    for i, (f, e) in enumerate(zip(frames, exp_frames)):
        if f != e:
            what = wire.classify(e)
            detail = ""
            if what == "breeze_status" and len(f) == len(e):
                names = ["state", "mode", "target", "fan/swing"]
                diff = [names[j] for j in range(4) if f[86 + j] != e[86 + j]]
                detail = "/" + "+".join(diff) if diff else ""
            raise Violation(f"C16/frame{i}-{what}-mismatch{detail}/{tag}", case, e.hex(), f.hex())


# -- strategies -----------------------------------------------------------------------------------

def targets(edge=None):
    # the ends of the remote's own range are where range bookkeeping goes wrong: drawn as often as any other value
    if edge:
        return st.one_of(st.integers(16, 30), st.sampled_from([t for t in edge if 16 <= t <= 30] or [16, 30]))
    return st.integers(16, 30)


def cur_states(modes, edge=None):
    return st.fixed_dictionaries({"on": st.booleans(), "mode": st.sampled_from(modes), "fan": st.integers(0, 3),
                                  "swing": st.booleans(), "target": targets(edge), "temp_tenths": st.integers(0, 65535),
                                  "remote_id": st.just("ELEC7001")})


def requests(modes, edge=None):
    return st.builds(
        lambda mask, on, mode, target, fan, swing: {
            "state": on if mask & 1 else None, "mode": mode if mask & 2 else None, "target": target if mask & 4 else 0,
            "fan": fan if mask & 8 else None, "swing": swing if mask & 16 else None},
        st.integers(0, 31), st.booleans(), st.sampled_from(modes), targets(edge), st.integers(0, 3), st.booleans())


ALLMODES = irset.MODES


def strat(dense, faults):
    def build():
        specs = gen.ir_specs(dense=True, lens="short") if dense else gen.ir_specs(lens="mixed")
        def with_spec(spec):
            spec = dict(spec, off=True, tmin=min(spec["tmin"], 16), tmax=max(spec["tmax"], 30)) if dense else spec
            # the device may report (and the caller may ask for) a mode the remote does not support: error path
            modes = ALLMODES if not dense else spec["modes"]
            if not dense and spec.get("lonely_min"):
                # keep the remote's lowest temperature inside the thermostat's 16..30 so that it can be asked for
                lo = 16 + spec["seed"] % 10
                spec = dict(spec, tmin=lo, tmax=max(spec["tmax"], lo + 3))
            edge = [spec["tmin"], spec["tmin"] + 1, spec["tmax"]]
            modes_w = modes if dense else list(modes) + [m for m in ("cool", "heat") if m in spec["modes"]] * 2
            return st.builds(
                lambda cur, req, update, fault, dev, sess, ts, salt, transient: dict({
                    "ir": spec, "cur": cur, "req": req, "update": update, "fault": None if transient else fault,
                    "device_id": dev, "session": sess, "ts": ts, "salt": salt},
                    **({"empty_read": fault} if transient and fault is not None else {})),
                cur_states(modes_w, edge), requests(modes_w, edge), st.booleans(),
                st.integers(0, 3) if faults else st.none(), gen.device_ids, gen.sessions, gen.timestamps, st.integers(1, 100),
                st.booleans() if faults else st.just(False)).flatmap(
                    lambda c: st.one_of(st.just(c), st.just(dict(c, churn=True)), st.just(dict(c, bridge_heard=True)), st.builds(
                        lambda cur0, req0, up0, gap: dict(c, first={"cur": cur0, "req": req0, "update": up0, "gap": gap}),
                        cur_states(modes), requests(modes), st.booleans(), st.sampled_from([0, 0, 1, 60]))) if not faults else st.just(c))
        return specs.flatmap(with_spec)
    return build


def cases_grid(tier):
    """Full state x subset x remote kind x flag grid, one hashed value draw each (thorough)."""
    def h(*p):
        return int.from_bytes(hashlib.blake2b("/".join(map(str, p)).encode(), digest_size=8).digest(), "big")

    def gen_cases():
        out = []
        kinds = [(False, False), (False, True), (True, False), (True, True)]   # (toggle, special)
        targets = range(16, 31) if tier == "thorough" else (16, 24, 30)
        for on in (True, False):
            for mode in irset.MODES:
                for target in targets:
                    for fan in range(4):
                        for swing in (False, True):
                            out.append({"chunk": [on, mode, target, fan, swing]})
        return out
    return gen_cases


def body_grid(rep, case):
    if "chunk" not in case:
        return body(rep, case, "grid")
    on, mode, target, fan, swing = case["chunk"]

    def h(*p):
        return int.from_bytes(hashlib.blake2b("/".join(map(str, p)).encode(), digest_size=8).digest(), "big")
    for toggle in (False, True):
        for special in (False, True):
            spec = {"id": (irset.SPECIAL_SWING_IDS if special else irset.ORDINARY_IDS)[h(on, mode, target, "id") % 4],
                    "toggle": toggle, "modes": irset.MODES, "tmin": 16, "tmax": 30, "density": 100,
                    "seed": 7 + (1 if toggle else 0) + (2 if special else 0), "lens": "short", "fun": special, "off": True}
            for mask in range(32):
                for update in (False, True):
                    r = h(on, mode, target, fan, swing, toggle, special, mask, update)
                    req = {"state": bool(r & 1) if mask & 1 else None,
                           "mode": irset.MODES[(r >> 1) % 5] if mask & 2 else None,
                           "target": 16 + (r >> 4) % 15 if mask & 4 else 0,
                           "fan": (r >> 8) % 4 if mask & 8 else None,
                           "swing": bool((r >> 10) & 1) if mask & 16 else None}
                    one = {"ir": spec, "cur": {"on": on, "mode": mode, "fan": fan, "swing": swing, "target": target,
                                               "temp_tenths": (r >> 12) % 400, "remote_id": spec["id"]},
                           "req": req, "update": update, "fault": None, "device_id": f"{(r >> 20) % (1 << 24):06x}",
                           "session": f"{(r >> 30) % (1 << 32):08x}", "ts": 1_700_000_000 + (r >> 40) % 10 ** 6, "salt": 1 + r % 50}
                    body(rep, one, "grid")


def subchecks(tier):
    big = tier == "thorough"
    subs = [
        Sub("dense", lambda rep, case: body(rep, case, "dense"), strategy=strat(True, False), n=60_000 if big else 4000,
            shards=16 if big else 4, shrink_budget=150),
        Sub("sparse", lambda rep, case: body(rep, case, "sparse"), strategy=strat(False, False), n=40_000 if big else 1500,
            shards=16 if big else 4, shrink_budget=150),
        Sub("faults", lambda rep, case: body(rep, case, "faults"), strategy=strat(True, True), n=40_000 if big else 2400,
            shards=16 if big else 4, shrink_budget=150),
    ]
    subs.append(Sub("slow-device", body_slow, strategy=strat_slow, n=20_000 if big else 900, shards=8 if big else 2, shrink_budget=100))
    if big:
        subs.append(Sub("grid", body_grid, cases=cases_grid(tier), shards=16, exhaustive=True))
    return subs
