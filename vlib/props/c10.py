"""C10 - listed schedules decode exactly; a created schedule reads back unchanged."""
import datetime as dt

from hypothesis import strategies as st

from .. import gen, vclock
from ..engine import Sub, Violation
from ..fake import env, net, ops
from ..ref import replies

PROP = "C10"
LEVEL = "exploration"
DESIGN_REF = "DESIGN.md section 3, C10"
TECHNIQUE = "round trip against a reference encoder of the get-schedules reply (pinned to the shipped two-schedule capture) under a virtual clock/zone, through get_schedules() on the fake device; plus create_schedule -> device stores the received record -> get_schedules read-back"
LEVEL_TEXT = ("Replies with 0..8 generated 16-byte records (slot ids 0..255 incl. duplicates, every day mask, start/end epochs "
              "around DST changes in 16 zones) are decoded by the library under time_machine and compared with zoneinfo "
              "arithmetic; the create->list round trip drives both API calls on one connection with the fake device echoing "
              "the record it received. Sampling of zones/dates/records; not a proof.")
RULE = ("listing case = (zone, now, records); round-trip case = (zone, now, start, end, days). Non-trivial = >= 2 records or zone "
        "!= UTC or a date within a day of a UTC-offset transition; distinct by the whole case."
        ' Round trips draw half of their clock strings from 00:00-03:59 on DST-change days; in the direct path the day sets of the first result are cleared and the same reply is parsed again; the days of a round trip are handed over as set, frozenset, list or tuple; schedule records whose time stamps contain the byte pairs fe f0 / f0 fe.'
        " The round-trip's 'now' includes second 59 with sub-second parts .499999/.5/.999999 (the current second must not leak into the record).")
ASSUMPTIONS = [
    "reply layout: 45-byte header, n x 16-byte records (slot, enabled, mask, state, start LE32, end LE32, 4 opaque), 4-byte trailer, pinned by tests/testresources/test_schedule_parser capture",
    "odd day masks and times inside a DST gap are unspecified and not generated / skipped; 'display' is C13's business",
    "for duplicated slot ids the parsed schedule may be any one of the records with that id",
]

DAYS = gen.DAY_NAMES


def hhmm_of(zone, epoch):
    return vclock.wall(zone, epoch).strftime("%H:%M")


def duration(s, e):
    sm = int(s[:2]) * 60 + int(s[3:])
    em = int(e[:2]) * 60 + int(e[3:])
    d = (em - sm) % 1440
    return f"{d // 60}:{d % 60:02d}:00"


def expected(zone, r):
    s, e = hhmm_of(zone, r["start"]), hhmm_of(zone, r["end"])
    return {"schedule_id": str(r["slot"]), "recurring": r["mask"] != 0,
            "days": sorted(DAYS[i] for i in range(7) if r["mask"] >> (i + 1) & 1),
            "start_time": s, "end_time": e, "duration": duration(s, e)}


def view(s):
    return {"schedule_id": s.schedule_id, "recurring": s.recurring, "days": sorted(d.name for d in s.days),
            "start_time": s.start_time, "end_time": s.end_time, "duration": s.duration}


def build_reply(case):
    recs = [(r["slot"], r["enabled"], r["mask"], r.get("state", 1), r["start"], r["end"], bytes.fromhex(r["opaque"]))
            for r in case["records"]]
    salt = case.get("salt", 0)
    header = bytes((i * 31 + salt * 7) % 256 for i in range(45)) if salt else bytes(45)
    return replies.schedules(recs, header=header, trailer=bytes([(salt * 3 + i) % 256 for i in range(4)]))


async def list_via_api(case, reply):
    dev = await env.device()
    cl = ops.Client(dev, 1, "a1b2c3", "18")
    await cl.connect()
    try:
        script = [{"data": replies.login("0a0b0c0d", 44, 1)}, {"data": reply} if reply else {"eof": True}]
        dev.set_script(script)
        first = await cl.call("get_schedules", {})
        if not case.get("list_again") or first[0] != "ok" or not reply:
            return first
        # the same listing asked for again on the same object while the caller still holds (and has edited) the first
        # answer: it owns what it was handed, the second answer is the device's again
        held = first[1]
        try:
            for sch in list(held.schedules):
                sch.days.clear()
            if isinstance(held.schedules, set):
                held.schedules.clear()
        except Exception:
            pass
        dev.set_script([{"data": replies.login("0a0b0c0e", 44, 2)}, {"data": reply}])
        second = await cl.call("get_schedules", {})
        return ("ok", second[1], held) if second[0] == "ok" else second
    finally:
        await cl.close()


def judge_listing(case, resp, sig="C10/listing"):
    zone = case["zone"]
    recs = case["records"]
    by_slot = {}
    for r in recs:
        by_slot.setdefault(str(r["slot"]), []).append(expected(zone, r))
    got = getattr(resp, "schedules", None)
    if not isinstance(got, (set, frozenset)):
        raise Violation(f"{sig}/schedules-type", case, "set", repr(got)[:100])
    views = [view(s) for s in got]
    if len(views) != len(by_slot) or sorted(v["schedule_id"] for v in views) != sorted(by_slot):
        raise Violation(f"{sig}/count-or-ids", case, sorted(by_slot), sorted(v["schedule_id"] for v in views))
    for v in views:
        alts = by_slot[v["schedule_id"]]
        if v not in alts:
            field = next((k for k in v if all(a[k] != v[k] for a in alts)), "combination")
            raise Violation(f"{sig}/{field}", case, alts, v)
    if resp.found_schedules is not (len(by_slot) > 0):
        raise Violation(f"{sig}/found_schedules", case, len(by_slot) > 0, resp.found_schedules)


def body_listing(rep, case, sub="listing"):
    zone = case["zone"]
    y, mo, d, h, mi, s = case["now"]
    reply = build_reply(case)
    near = case.get("near", False)
    nt = len(case["records"]) >= 2 or zone != "UTC" or near
    slots = [r["slot"] for r in case["records"]]
    rep.tick(sub, key=case, nontrivial=nt, sample=case,
             labels=(f"records={len(slots)}", "duplicate-slot-ids" if len(set(slots)) < len(slots) else "distinct-slots",
                     "near-transition" if near else "ordinary-date", "via-" + case.get("via", "api")))
    with vclock.frozen(zone, y, mo, d, h, mi, s):
        if case.get("via", "api") == "api":
            out = net.run(list_via_api(case, reply))
            status, resp = out[0], out[1]
            if len(out) == 3:
                rep.label("listed-again-after-editing-the-first-answer")
            if status != "ok":
                raise Violation(f"C10/listing/get_schedules-fails/{type(resp).__name__ if resp is not None else status}", case,
                                "a response", f"{status}: {resp!r}")
        else:
            from aioswitcher.api.messages import SwitcherGetSchedulesResponse
            resp = SwitcherGetSchedulesResponse(reply)
        judge_listing(case, resp, "C10/listing" + ("/again-after-caller-edited-first-answer" if case.get("list_again") and case.get("via", "api") == "api" else ""))
        if case.get("via", "api") == "direct":
            # the caller owns what it got: editing a listed schedule's day set must not change what the same reply
            # parses to the next time
            for sch in resp.schedules:
                try:
                    sch.days.clear()
                except AttributeError:
                    pass
            judge_listing(case, SwitcherGetSchedulesResponse(reply), "C10/listing/after-caller-edited-earlier-result")


def body_empty(rep, case):
    rep.tick("empty-reply", key="empty" + case["zone"], nontrivial=True, sample=case)
    with vclock.frozen(case["zone"], 2024, 6, 15, 12, 0, 0):
        status, resp = net.run(list_via_api(case, b""))
    if status != "ok":
        raise Violation("C10/empty-reply/raises", case, "no schedules", f"{status}: {resp!r}")
    if len(resp.schedules) != 0 or resp.found_schedules is not False:
        raise Violation("C10/empty-reply/schedules", case, "empty set, found_schedules False", repr(resp.schedules)[:200])


async def roundtrip(case):
    dev = await env.device()
    cl = ops.Client(dev, 1, case.get("device_id", "a1b2c3"), "18")
    await cl.connect()
    try:
        a = {"start": case["start"], "end": case["end"], "days": case["days"] or None, "days_form": case.get("days_form", "set")}
        dev.set_script(ops.good_script("create_schedule", a, "0a0b0c0d"))
        status, res = await cl.call("create_schedule", a)
        if status != "ok":
            return ("create", status, res, None)
        frame = cl.conn.frames[-1]
        rec = frame[83:95]          # ff 01 mask 01 start end  (layout: DESIGN appendix A.1)
        slot = case.get("slot", 3)
        listed = bytes([slot, rec[1], rec[2], rec[3]]) + rec[4:12] + bytes.fromhex(case.get("opaque", "ce0e0000"))
        others = [(r["slot"], r["enabled"], r["mask"], 1, r["start"], r["end"], bytes(4)) for r in case.get("others", [])]
        reply = replies.schedules(others) [:-4] + listed + b"\xc7\x6b\xd3\xcb"
        dev.set_script([{"data": replies.login("11223344", 44, 2)}, {"data": reply}])
        status, res = await cl.call("get_schedules", {})
        return ("list", status, res, rec)
    finally:
        await cl.close()


def body_roundtrip(rep, case, sub="roundtrip"):
    zone = case["zone"]
    y, mo, d, h, mi, s = case["now"][:6]
    micro = case["now"][6] if len(case["now"]) > 6 else 0        # the seconds and the sub-second part of "now" must not leak
    near = case.get("near", False)
    with vclock.frozen(zone, y, mo, d, h, mi, s, micro=micro) as dest:
        today = dest.astimezone(vclock.zone(zone)).date()
        for t in (case["start"], case["end"]):
            if not vclock.candidates(zone, today, int(t[:2]), int(t[3:])):
                rep.label("nonexistent-local-time-skipped")
                return
        rep.tick(sub, key=case, nontrivial=zone != "UTC" or near, sample=case,
                 labels=("near-transition" if near else "ordinary-date", f"days={len(case['days'])}",
                         "now-in-last-half-second-of-a-minute" if s == 59 and micro >= 500_000 else "now-elsewhere-in-the-minute"))
        phase, status, res, rec = net.run(roundtrip(case))
        if status != "ok":
            raise Violation(f"C10/roundtrip/{phase}-fails/{type(res).__name__ if res is not None else status}", case,
                            "both calls succeed", f"{status}: {res!r}")
        slot = str(case.get("slot", 3))
        mine = [sch for sch in res.schedules if sch.schedule_id == slot]
        if len(mine) != 1:
            raise Violation("C10/roundtrip/not-listed", case, slot, sorted(sch.schedule_id for sch in res.schedules))
        v = view(mine[0])
        want = {"start_time": case["start"], "end_time": case["end"], "days": sorted(case["days"])}
        for k, w in want.items():
            if v[k] != w:
                raise Violation(f"C10/roundtrip/{k}", case, want, v)


# -- strategies ---------------------------------------------------------------------------------

def date_pool(tier):
    pool = []
    zones = vclock.ZONES if tier == "thorough" else vclock.QUICK_ZONES
    for z in zones:
        trans = [t for t in vclock.transition_days(z) if (tier == "thorough" or 2022 <= t.year <= 2027)]
        for t in trans:
            for delta in (-1, 0, 1):
                day = t + dt.timedelta(days=delta)
                pool.append((z, [day.year, day.month, day.day], True))
        for (y, m, d) in [(2024, 2, 29), (2023, 12, 31), (2024, 1, 1), (2025, 7, 15), (2030, 3, 10)]:
            pool.append((z, [y, m, d], False))
    return pool


def strat_listing(tier, via):
    pool = date_pool(tier)

    def record(base_epoch):
        start = st.one_of(
            st.tuples(st.integers(-4 * 1440, 4 * 1440)).map(lambda t: base_epoch // 60 * 60 + t[0] * 60),
            st.integers(0, 2 ** 32 - 1),
            # time stamps whose little-endian bytes spell the frame magic fe f0 / the header terminator f0 fe somewhere
            st.tuples(st.sampled_from([b"\xfe\xf0", b"\xf0\xfe"]), st.integers(0, 2), st.integers(0, 65535)).map(
                lambda t: int.from_bytes((t[2].to_bytes(2, "little") * 2)[:t[1]] + t[0] + (t[2].to_bytes(2, "big") * 2)[:2 - t[1]], "little")))
        return st.builds(
            lambda slot, en, mask, state, s, dur, opq: {"slot": slot, "enabled": en, "mask": mask, "state": state, "start": s % 2 ** 32,
                                                         "end": (s + dur * 60) % 2 ** 32, "opaque": opq},
            st.one_of(st.integers(0, 7), st.integers(0, 255)), st.booleans(),
            st.one_of(st.just(0), st.integers(1, 127).map(lambda m: m * 2)), st.integers(0, 1), start, st.integers(0, 1439),
            st.one_of(st.binary(min_size=4, max_size=4), st.sampled_from([b"\xfe\xf0\x00\x00", b"\x00\xf0\xfe\x00", b"\x00\x00\xfe\xf0"])).map(bytes.hex))

    def for_date(t):
        z, (y, mo, d), near = t
        def with_now(now_s):
            h, mi, s = now_s // 3600, now_s // 60 % 60, now_s % 60
            naive = dt.datetime(y, mo, d, h, mi, s)
            base = int(naive.replace(tzinfo=vclock.zone(z)).timestamp())
            recs = st.lists(record(base), min_size=0, max_size=8)
            dup = st.lists(record(base), min_size=2, max_size=8).map(_force_dup)
            return st.builds(lambda rs, salt: dict({"zone": z, "now": [y, mo, d, h, mi, s], "records": rs, "near": near,
                                                    "via": via, "salt": salt}, **({"list_again": True} if via == "api" and salt % 3 == 0 else {})),
                             st.one_of(recs, recs, recs, dup), st.integers(0, 200))
        return st.sampled_from([30, 43200, 86370, 3 * 3600 + 1800]).flatmap(with_now)
    return lambda: st.sampled_from(pool).flatmap(for_date)


def _force_dup(rs):
    rs[-1]["slot"] = rs[0]["slot"]
    return rs


# on DST days the interesting wall times are the small hours: half of the clock strings come from 00:00..03:59
EARLY = st.one_of(gen.clock, st.integers(0, 239).map(lambda m: f"{m // 60:02d}:{m % 60:02d}"))


def strat_roundtrip(tier):
    pool = date_pool(tier)

    def for_date(t):
        z, (y, mo, d), near = t
        return st.builds(
            lambda now_s, micro, start, end, days, slot, dev, form: dict({"zone": z, "now": [y, mo, d, now_s // 3600, now_s // 60 % 60, now_s % 60] + ([micro] if micro else []),
                                                                   "start": start, "end": end, "days": days, "near": near, "slot": slot,
                                                                   "device_id": dev}, **({"days_form": form} if form != "set" and days else {})),
            st.sampled_from([30, 43200, 86370, 21 * 3600 + 1800, 3 * 3600, 86399, 12 * 3600 + 59, 2 * 3600 + 1859]),
            st.sampled_from([0, 0, 1, 499_999, 500_000, 999_999]), EARLY, EARLY, gen.day_sets, st.integers(0, 255), gen.device_ids,
            st.sampled_from(["set", "set", "frozenset", "list", "tuple"]))
    return lambda: st.sampled_from(pool).flatmap(for_date)


def cases_empty():
    return [{"zone": z, "records": []} for z in vclock.QUICK_ZONES]


def subchecks(tier):
    big = tier == "thorough"
    return [
        Sub("listing", body_listing, strategy=strat_listing(tier, "api"), n=40_000 if big else 2000, shards=16 if big else 4),
        Sub("listing-direct", lambda rep, case: body_listing(rep, case, "listing-direct"), strategy=strat_listing(tier, "direct"),
            n=200_000 if big else 1500, shards=16 if big else 2),
        Sub("roundtrip", body_roundtrip, strategy=strat_roundtrip(tier), n=60_000 if big else 1600, shards=16 if big else 4),
        Sub("empty-reply", body_empty, cases=cases_empty, shards=1, exhaustive=True),
    ]
