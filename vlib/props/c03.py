"""C03 - every operation logs in first and binds its commands to that login's session."""
import asyncio
import datetime as dt

import time_machine
from hypothesis import strategies as st

from .. import gen
from ..engine import Sub, Violation
from ..fake import env, net, ops
from ..ref import wire

PROP = "C03"
LEVEL = "exploration"
DESIGN_REF = "DESIGN.md section 3, C03"
TECHNIQUE = "generated operation histories (exhaustive for length <= 2 over the 16 operation variants, Hypothesis lists up to 20, two concurrently running API instances with generated reply delays) against a fake device issuing a fresh session per login; invariant over the per-connection frame log"
LEVEL_TEXT = ("Histories of operations run on one connection, or on two API instances whose exchanges interleave under "
              "harness-chosen reply delays (loop turns, no wall clock). After each history the per-connection frame log is cut "
              "into exchanges and every frame must carry this exchange's session id, this object's id/key, a timestamp inside "
              "the operation's window of the virtual clock (moved 0..4000 s between operations), in the model's frame order and count. "
              "Exhaustive for sequences of length <= 2; longer histories and interleavings are sampled.")
RULE = ("case = clients (type, id, key) + ordered operations (kind, accepted args, session to issue, clock gap, reply delays); "
        "modes: all 16 + 256 sequences of length <= 2, Hypothesis lists of 3..20 operations, two clients run under asyncio.gather. "
        "Non-trivial = history with >= 2 operations on a connection whose consecutive logins got different session ids; "
        "distinct by (kinds, clients, sessions, delays)."
        ' Also: all ordered pairs of operation kinds with generated arguments, clocks within +-2 h of a UTC-offset change of the host zone, host zones other than UTC, and a device that takes 6 s .. 25 h to answer one step (login or any command) of an operation, under a harness-owned event-loop clock: the slow operation may wait or give up, but every frame it and the following operations write must belong to a whole exchange bound to its own login. API objects are in a quarter of the cases instances of a trivial application subclass; half of the interleaved cases run one operation in the parent task before the two instances are gathered (context inheritance). many-objects: 66..130 (thorough 520) API objects with distinct ids and keys alive at once, one operation each, then the first ones again.')
ASSUMPTIONS = [
    "the harness owns the schedule: reply delays are counts of event-loop turns; the only interleavings explored are those a single-threaded asyncio client can observe",
    "two operations are never run concurrently on the same API object (unsupported by the stream protocol)",
    "slow-device cases run under net.virtual_time: when the loop would block on a timer with no socket ready, the loop clock jumps to the timer (2 ms real grace); client and fake device share the loop, so no data is in flight at that point",
    "a frame's timestamp may be read at login or again later: any value inside [clock at call - 1, clock at receipt + 1] is accepted",
]

UTC = dt.timezone.utc


def check_exchange(case, ccfg, op, frames, times, t_call, idx, gave_up=False):
    kind = op["kind"]
    where = {"client": ccfg, "op_index": idx, "kind": kind}
    model = [ops.login_kind(kind)] + ops.FRAMES[kind]
    got_kinds = [wire.classify(f) if len(f) >= 44 else "short" for f in frames]
    if gave_up:
        # the operation raised (only tolerated for a device that answers late): what it did write must still be the
        # beginning of its own exchange
        if len(frames) > len(model):
            raise Violation(f"C03/frame-count/op={kind}", case, model, dict(where, got=got_kinds))
        model = model[:len(frames)]
    if len(frames) != len(model):
        raise Violation(f"C03/frame-count/op={kind}", case, model, dict(where, got=got_kinds))
    if got_kinds != model:
        raise Violation(f"C03/frame-order/op={kind}", case, model, dict(where, got=got_kinds))
    for i, (f, t_rx) in enumerate(zip(frames, times)):
        d = wire.decode(f)
        which = "login" if i == 0 else "command"
        if not (t_call - 1 <= d["ts"] <= t_rx + 1):
            raise Violation(f"C03/stale-or-future-timestamp/{which}", case, [t_call, t_rx], dict(where, frame=i, ts=d["ts"]))
        if i == 0:
            if d["session"] != "00000000":
                raise Violation("C03/login-carries-session", case, "00000000", dict(where, session=d["session"]))
            if ccfg["type"] == 1:
                if d["body"][0] != ccfg["key"]:
                    raise Violation("C03/login-key", case, ccfg["key"], dict(where, key=d["body"][0]))
            else:
                if d["body"][0:3].hex() != ccfg["device_id"]:
                    raise Violation("C03/login-device-id", case, ccfg["device_id"], dict(where, got=d["body"][0:3].hex()))
        else:
            if d["session"] != op["session"]:
                raise Violation(f"C03/session-not-from-this-login/op={kind}", case, op["session"],
                                dict(where, frame=i, session=d["session"]))
            if d["body"][0:3].hex() != ccfg["device_id"]:
                raise Violation(f"C03/device-id/op={kind}", case, ccfg["device_id"], dict(where, got=d["body"][0:3].hex()))


class Clock:
    def __init__(self, traveller, t0):
        self.tr = traveller
        self.now = t0

    def advance(self, secs):
        if secs:
            self.now += secs
            self.tr.move_to(float(self.now))


async def run_history(rep, case, sub):
    dev = await env.device()
    cfgs = case["clients"]
    clients = [ops.Client(dev, c["type"], c["device_id"], f"{c['key']:02x}", subclass=bool(c.get("subclass"))) for c in cfgs]
    for cl in clients:
        await cl.connect()
    results = []   # (client index, op, frames, times, t_call, status, res)
    try:
        from .. import vclock
        zone = vclock.zone(case.get("zone", "UTC"))
        with time_machine.travel(dt.datetime.fromtimestamp(case["t0"], zone), tick=False) as tr:
            clock = Clock(tr, case["t0"])

            async def one(ci, op, idx):
                cl = clients[ci]
                clock.advance(op.get("gap", 2))
                t_call = clock.now
                script = ops.good_script(op["kind"], op["args"], op["session"], salt=op.get("salt", 1),
                                         delays=op.get("delays"))
                for r, sh in zip(script, op.get("shifts", [])):
                    if sh:
                        r["hook"] = (lambda s=sh: clock.advance(s))
                slow = case.get("slow")
                secs = 0
                if slow and slow["op"] == idx and slow["step"] < len(script):
                    secs = script[slow["step"]]["sleep"] = slow["secs"]
                n0 = len(cl.conn.frames)
                cl.conn.script.clear()
                cl.conn.script.extend(script)
                status, res = await cl.call(op["kind"], op["args"], timeout=40.0 + 2 * secs)
                if slow and status != "ok":
                    # the client gave up on a slow answer: let the device finish what it was doing before going on
                    await asyncio.sleep(slow["secs"] + 1)
                    await cl.settle()
                results.append((ci, op, cl.conn.frames[n0:], cl.conn.times[n0:], t_call, status, res, idx))

            if case.get("concurrent"):
                per = {}
                for idx, op in enumerate(case["ops"]):
                    per.setdefault(op["client"], []).append((idx, op))

                async def runner(ci, lst):
                    for idx, op in lst:
                        await one(ci, op, idx)
                if case.get("warmup"):
                    # one operation runs in the parent task first: the tasks gathered below inherit its context
                    ci0 = sorted(per)[0]
                    idx0, op0 = per[ci0].pop(0)
                    await one(ci0, op0, idx0)
                await asyncio.gather(*[runner(ci, lst) for ci, lst in per.items()])
            else:
                for idx, op in enumerate(case["ops"]):
                    await one(op["client"], op, idx)
    finally:
        for cl in clients:
            await cl.close()

    # -- oracle ---------------------------------------------------------------------------------
    per_client = {}
    for ci, op, frames, times, t_call, status, res, idx in sorted(results, key=lambda r: r[7]):
        per_client.setdefault(ci, []).append(op["session"])
    nt = any(len(v) >= 2 and any(a != b for a, b in zip(v, v[1:])) for v in per_client.values())
    rep.tick(sub, key=case, nontrivial=nt, sample=_brief(case),
             labels=(f"ops={min(len(case['ops']), 5)}{'+' if len(case['ops']) > 5 else ''}",
                     "concurrent" if case.get("concurrent") else "sequential"))
    for ci, op, frames, times, t_call, status, res, idx in results:
        if status != "ok" and case.get("slow"):
            rep.label("gave-up-on-slow-device")
            check_exchange(case, cfgs[ci], op, frames, times, t_call, idx, gave_up=True)
            continue
        if status != "ok":
            raise Violation(f"C03/operation-fails/op={op['kind']}/{type(res).__name__ if res is not None else status}", case,
                            "operation completes", f"{status}: {res!r}")
        check_exchange(case, cfgs[ci], op, frames, times, t_call, idx)
    for cl in clients:
        if cl.dev.unscripted:
            pass
    total = sum(len(r[2]) for r in results)
    logged = sum(len(cl.conn.frames) for cl in clients)
    if total != logged:
        raise Violation("C03/frames-outside-any-exchange", case, total, logged)


def _brief(case):
    return {"clients": case["clients"][:4], "n_clients": len(case["clients"]), "concurrent": case.get("concurrent", False),
            "ops": [{"client": o["client"], "kind": o["kind"], "session": o["session"], "delays": o.get("delays")}
                    for o in case["ops"][:8]]}


def make_body(sub):
    def body(rep, case):
        if case.get("slow"):
            with net.virtual_time():
                net.run(run_history(rep, case, sub))
        else:
            net.run(run_history(rep, case, sub))
    return body


# -- case generation -----------------------------------------------------------------------------

CANON_ARGS = {
    "get_state": {}, "control_on": {"minutes": 90}, "control_off": {}, "set_auto_shutdown": {"seconds": 5400},
    "set_device_name": {"name": "Boiler שלי"}, "get_schedules": {}, "delete_schedule": {"slot": "3"},
    "create_schedule": {"start": "13:00", "end": "14:30", "days": ["MONDAY", "FRIDAY"], "days_form": "set"},
    "stop": {}, "set_position": {"position": 37}, "get_shutter_state": {}, "get_breeze_state": {},
}
_IR_ORD = {"id": "ELEC7001", "toggle": False, "modes": ["auto", "cool", "heat"], "tmin": 16, "tmax": 30, "density": 100,
           "seed": 5, "lens": "short", "fun": False, "off": True}
_IR_SPC = dict(_IR_ORD, id="ELEC7022", fun=True)
_CUR = {"on": True, "mode": "cool", "fan": 1, "swing": False, "target": 24, "temp_tenths": 255, "remote_id": "ELEC7001"}
_REQ = {"state": True, "mode": "heat", "target": 22, "fan": 2, "swing": True}
CANON_ARGS.update({
    "breeze_command": {"ir": _IR_ORD, "req": _REQ, "cur": _CUR},
    "breeze_status": {"ir": _IR_ORD, "req": _REQ, "cur": _CUR},
    "breeze_swing_only": {"ir": _IR_SPC, "req": {"state": None, "mode": None, "target": 0, "fan": None, "swing": True}, "cur": _CUR},
    "breeze_command_swing": {"ir": _IR_SPC, "req": _REQ, "cur": _CUR},
})
CLIENTS2 = [{"type": 1, "device_id": "a1b2c3", "key": 0x18}, {"type": 2, "device_id": "0d0e0f", "key": 0x2A}]


def cases_pairs():
    out = []
    seqs = [[k] for k in ops.KINDS] + [[a, b] for a in ops.KINDS for b in ops.KINDS]
    for n, seq in enumerate(seqs):
        oplist = []
        for i, k in enumerate(seq):
            sess = bytes([(n * 7 + i * 13 + 1) % 256, (n >> 3) % 256, 0x5A ^ i, (n * 3 + i) % 256]).hex()
            oplist.append({"client": 0 if ops.api_type(k) == 1 else 1, "kind": k, "args": CANON_ARGS[k], "session": sess,
                           "gap": (n + 2 * i) % 4, "salt": 1 + i})
        out.append({"clients": CLIENTS2, "t0": 1_700_000_000 + n * 1000, "ops": oplist,
                    "zone": ["UTC", "Asia/Jerusalem", "America/New_York"][n % 3]})
    return out


def op_strategy(kinds, client_of):
    def one(kind):
        return st.builds(
            lambda a, sess, gap, salt, delays, shifts: {"client": client_of(kind), "kind": kind, "args": a, "session": sess,
                                                        "gap": gap, "salt": salt, "delays": delays, "shifts": shifts},
            gen.op_args(kind).map(_resolvable), gen.sessions, st.one_of(st.sampled_from([0, 0, 1, 2]), st.integers(0, 4000)), st.integers(1, 100),
            st.lists(st.integers(0, 6), min_size=4, max_size=4), st.lists(st.integers(0, 3), min_size=4, max_size=4))
    return st.sampled_from(kinds).flatmap(one)


def _resolvable(a):
    if "ir" in a:
        a["ir"]["off"] = True
        a["ir"]["density"] = 100
        a["ir"].pop("lonely_min", None)     # shapes for C15/C16 only: with them some requests have no stored key at all
        a["ir"].pop("auto_temps", None)
        a["ir"].pop("d1_only_prefixed", None)
        if a["ir"]["lens"] not in ("short", "mixed"):
            a["ir"]["lens"] = "short"
    return a


def client_cfgs(types):
    return st.tuples(*[st.tuples(gen.device_ids, gen.keys_int, st.sampled_from([False, False, False, True])) for _ in types]).map(
        lambda t: [dict({"type": ty, "device_id": d, "key": k}, **({"subclass": True} if sc else {})) for ty, (d, k, sc) in zip(types, t)])


HOST_ZONES = st.sampled_from(["UTC", "UTC", "Asia/Jerusalem", "America/New_York", "Asia/Kathmandu", "Pacific/Kiritimati"])


def strat_seq():
    return st.builds(
        lambda cfg, oplist, t0, z: {"clients": cfg, "t0": t0, "ops": oplist, "zone": z},
        client_cfgs([1, 2]),
        st.lists(op_strategy(ops.KINDS, lambda k: 0 if ops.api_type(k) == 1 else 1), min_size=3, max_size=20),
        st.integers(300_000, 2 ** 32 - 400_000), HOST_ZONES)


def strat_pairs_random():
    """Every ordered pair of operation kinds again, now with generated arguments, sessions, gaps and host zone."""
    client_of = lambda k: 0 if ops.api_type(k) == 1 else 1  # noqa
    pair = st.tuples(st.sampled_from(ops.KINDS), st.sampled_from(ops.KINDS)).flatmap(
        lambda ab: st.tuples(op_strategy([ab[0]], client_of), op_strategy([ab[1]], client_of)))
    return st.builds(lambda cfg, two, t0, z: {"clients": cfg, "t0": t0, "ops": list(two), "zone": z},
                     client_cfgs([1, 2]), pair, st.integers(300_000, 2 ** 32 - 400_000), HOST_ZONES)


def strat_dst_clock():
    """Short histories whose clock sits in the hours around a UTC-offset change of the host zone (the repeated hour when
    daylight saving ends is where 'local time -> epoch' conversions go wrong)."""
    client_of = lambda k: 0 if ops.api_type(k) == 1 else 1  # noqa
    return st.builds(lambda cfg, oplist, zt: {"clients": cfg, "t0": zt[1], "ops": oplist, "zone": zt[0]},
                     client_cfgs([1, 2]), st.lists(op_strategy([k for k in ops.KINDS if k != "create_schedule"], client_of),
                                                   min_size=1, max_size=3),
                     gen.dst_timestamps())


SLOW_SECS = {"quick": [6, 61, 3601], "thorough": [2, 6, 11, 31, 61, 121, 301, 901, 3601, 90_000]}


def cases_slow_device(tier):
    """A device that takes seconds to hours to answer one step (login or a command) of one operation, under the
    harness-owned loop clock (net.virtual_time): the operation may wait or give up, but what it and the following
    operations on that connection write must still be whole exchanges bound to their own logins."""
    def gen_cases():
        out = []
        n = 0
        for kind in ops.KINDS:
            ci = 0 if ops.api_type(kind) == 1 else 1
            same = ops.KINDS1 if ci == 0 else ops.KINDS2
            for step in range(1 + len(ops.FRAMES[kind])):
                for secs in SLOW_SECS[tier]:
                    n += 1
                    followers = [same[n % len(same)], same[(n * 5 + 3) % len(same)]]
                    oplist = []
                    for i, k in enumerate([kind] + followers):
                        oplist.append({"client": ci, "kind": k, "args": CANON_ARGS[k], "gap": 1 + i, "salt": 1 + i,
                                       "session": bytes([0xA0 + i, n % 256, (n >> 8) % 256, 0x11 * (i + 1)]).hex()})
                    # an exchange on the other API instance after the slow one must not be disturbed either
                    other = (ops.KINDS2 if ci == 0 else ops.KINDS1)[n % 8]
                    oplist.append({"client": 1 - ci, "kind": other, "args": CANON_ARGS[other], "gap": 1, "salt": 9,
                                   "session": bytes([0xC0, n % 256, 0x33, 0x44]).hex()})
                    out.append({"clients": CLIENTS2, "t0": 1_700_000_000 + n * 100, "zone": "UTC",
                                "slow": {"op": 0, "step": step, "secs": secs}, "ops": oplist})
        return out
    return gen_cases


def cases_interleaved_scenarios():
    """Two type-2 instances: A's thermostat control (3-4 frames) is stretched by reply delays while B logs in somewhere inside
    it - every position, with and without an earlier operation in the parent task."""
    out = []
    n = 0
    cfg = [{"type": 2, "device_id": "0d0e0f", "key": 0x2A}, {"type": 2, "device_id": "a0b1c2", "key": 0x3B}]
    for ka in ("breeze_command_swing", "breeze_command", "breeze_status", "breeze_swing_only"):
        for kb in ("stop", "get_shutter_state", "get_breeze_state", "breeze_command"):
            for da in ([0, 4, 4, 4], [2, 0, 6, 0], [0, 0, 0, 6], [5, 5, 0, 0], [1, 3, 5, 2]):
                for db in ([1, 0, 0, 0], [3, 1, 0, 0], [6, 0, 2, 0]):
                    for warm in (False, True):
                        n += 1
                        oplist = [{"client": 0, "kind": "get_breeze_state", "args": CANON_ARGS["get_breeze_state"], "gap": 1, "salt": 3,
                                   "session": bytes([0xE0, n % 256, n >> 8, 1]).hex()}] if warm else []
                        oplist += [{"client": 0, "kind": ka, "args": CANON_ARGS[ka], "gap": 1, "salt": 5, "delays": da,
                                    "session": bytes([0xE1, n % 256, n >> 8, 2]).hex()},
                                   {"client": 1, "kind": kb, "args": CANON_ARGS[kb], "gap": 0, "salt": 7, "delays": db,
                                    "session": bytes([0xE2, n % 256, n >> 8, 3]).hex()}]
                        out.append(dict({"clients": cfg, "t0": 1_700_000_000 + n * 50, "zone": "UTC", "ops": oplist, "concurrent": True},
                                        **({"warmup": True} if warm else {})))
    return out


def cases_many_objects(tier):
    """Many API objects with different device ids / keys alive in one process, each doing one operation, then the first
    ones again: whatever the library keeps per device must not run out of room or get mixed up."""
    def gen_cases():
        out = []
        for typ in (1, 2):
            kinds = ["get_state", "control_on", "get_schedules"] if typ == 1 else ["stop", "get_shutter_state", "get_breeze_state", "set_position"]
            for n in ([66, 70, 130] + ([260, 520] if tier == "thorough" else [])):
                clients = [{"type": typ, "device_id": f"{(i * 2654435761 + 12345) % 0xFFFFFF:06x}", "key": (i * 37 + 1) % 256} for i in range(n)]
                oplist = []
                for rnd, idxs in enumerate([range(n), list(range(0, 6)) + [n // 2, n - 1]]):
                    for i in idxs:
                        k = kinds[(i + rnd) % len(kinds)]
                        oplist.append({"client": i, "kind": k, "args": CANON_ARGS[k], "gap": 1, "salt": 1 + i % 50,
                                       "session": bytes([0xD0 + rnd, i % 256, i >> 8, typ]).hex()})
                out.append({"clients": clients, "t0": 1_700_000_000, "zone": "UTC", "ops": oplist})
        return out
    return gen_cases


async def run_with_hangup(rep, case, sub):
    """op A (fine) - op B (the device answers the login, then closes instead of answering the command) - the caller
    reconnects - op C (fine).  On EVERY connection the client opened, the frame log must consist of whole exchanges that
    start with a login frame and whose command frames carry the session issued on that connection for that login."""
    dev = await env.device()
    cfg = case["clients"][0]
    cl = ops.Client(dev, cfg["type"], cfg["device_id"], f"{cfg['key']:02x}")
    n_before = len(dev.conns)
    await cl.connect()
    try:
        with time_machine.travel(dt.datetime.fromtimestamp(case["t0"], UTC), tick=False):
            for idx, op in enumerate(case["ops"]):
                script = ops.good_script(op["kind"], op["args"], op["session"], salt=op.get("salt", 1))
                if idx == case["hangup_at"]:
                    script = script[:1] + [{"eof": True}]
                dev.set_script(script)           # device-wide: also answers connections the library opens on its own
                status, res = await cl.call(op["kind"], op["args"])
                if idx == case["hangup_at"]:
                    await cl.close()
                    cl = ops.Client(dev, cfg["type"], cfg["device_id"], f"{cfg['key']:02x}")
                    await cl.connect()
                elif status != "ok":
                    raise Violation(f"C03/operation-fails/op={op['kind']}/around-hangup", case, "operation completes", f"{status}: {res!r}")
    finally:
        await cl.close()
    await dev.wait_all_closed(turns=300)
    conns = dev.conns[n_before:]
    rep.tick(sub, key=case, nontrivial=True, sample=_brief(case), labels=(f"connections={len(conns)}",))
    login_op = "a100" if cfg["type"] == 1 else "a600"
    for ci, conn in enumerate(conns):
        session = None
        replies_iter = iter(conn.sent)
        for fi, f in enumerate(conn.frames):
            reply = next(replies_iter, None)
            d = wire.decode(f) if len(f) >= 44 else None
            where = {"connection": ci, "frame": fi, "kind": wire.classify(f) if d else "short"}
            if d is None:
                raise Violation("C03/short-frame/around-hangup", case, ">= 44 bytes", dict(where, hex=f.hex()))
            if d["op"] == login_op:
                session = reply[8:12].hex() if isinstance(reply, (bytes, bytearray)) and len(reply) >= 12 else None
                continue
            if fi == 0 or session is None and not any(wire.decode(g)["op"] == login_op for g in conn.frames[:fi] if len(g) >= 44):
                raise Violation("C03/command-frame-without-login-on-its-connection", case, "login frame first", where)
            if session is not None and d["session"] != session:
                raise Violation("C03/session-not-from-this-login/around-hangup", case, session, dict(where, session=d["session"]))


def strat_hangup():
    def for_type(t):
        kinds = [k for k in (ops.KINDS1 if t == 1 else ops.KINDS2)]
        op = op_strategy(kinds, lambda k: 0)
        return st.builds(lambda cfg, oplist, at, t0: {"clients": cfg, "t0": t0, "ops": oplist, "hangup_at": at % len(oplist)},
                         client_cfgs([t]), st.lists(op, min_size=2, max_size=4), st.integers(0, 3), st.integers(300_000, 2 ** 31))
    return st.sampled_from([1, 2]).flatmap(for_type)


def strat_interleaved():
    def for_types(types):
        kinds_of = {1: ops.KINDS1, 2: ops.KINDS2}
        a = st.lists(op_strategy(kinds_of[types[0]], lambda k: 0), min_size=1, max_size=4)
        b = st.lists(op_strategy(kinds_of[types[1]], lambda k: 1), min_size=1, max_size=4)
        return st.builds(lambda cfg, la, lb, t0, z, warm: dict({"clients": cfg, "t0": t0, "ops": la + lb, "concurrent": True, "zone": z},
                                                                **({"warmup": True} if warm else {})),
                         client_cfgs(list(types)), a, b, st.integers(300_000, 2 ** 32 - 400_000), HOST_ZONES, st.booleans())
    return st.sampled_from([(1, 1), (2, 2), (1, 2)]).flatmap(for_types)


def subchecks(tier):
    big = tier == "thorough"
    return [
        Sub("pairs", make_body("pairs"), cases=cases_pairs, shards=16, exhaustive=True),
        Sub("pairs-random-args", make_body("pairs-random-args"), strategy=strat_pairs_random, n=256 * 50 if big else 600,
            shards=16 if big else 2),
        Sub("dst-clock", make_body("dst-clock"), strategy=strat_dst_clock, n=20_000 if big else 500, shards=16 if big else 2),
        Sub("device-hangs-up", lambda rep, case: net.run(run_with_hangup(rep, case, "device-hangs-up")), strategy=strat_hangup,
            n=20_000 if big else 400, shards=16 if big else 2),
        Sub("sequences", make_body("sequences"), strategy=strat_seq, n=60_000 if big else 800, shards=16 if big else 4),
        Sub("interleaved-scenarios", make_body("interleaved-scenarios"), cases=cases_interleaved_scenarios, shards=4, exhaustive=True),
        Sub("many-objects", make_body("many-objects"), cases=cases_many_objects(tier), shards=3, exhaustive=False),
        Sub("slow-device", make_body("slow-device"), cases=cases_slow_device(tier), shards=16 if big else 4, exhaustive=True),
        Sub("interleaved", make_body("interleaved"), strategy=strat_interleaved, n=60_000 if big else 1000, shards=16 if big else 4),
    ]
