"""C14 - a schedule's duration is (end - start) modulo 24 hours."""
from hypothesis import strategies as st

from ..engine import Sub, Violation

PROP = "C14"
LEVEL = "exploration"
DESIGN_REF = "DESIGN.md section 3, C14"
TECHNIQUE = "exhaustive enumeration of all 1440x1440 pairs (thorough) / boundary rows + Hypothesis pairs (quick) against integer modular arithmetic"
LEVEL_TEXT = ("calc_duration is compared with (end-start) mod 1440 rendered H:MM:00. Thorough enumerates the complete "
              "1440x1440 domain (exhaustive); quick enumerates every pair touching a boundary minute or |end-start|<=1 "
              "and samples the rest with Hypothesis.")
RULE = ("pairs (start, end) of HH:MM strings; thorough: all 2,073,600; quick: all pairs with start or end in {00:00,00:01,"
        "11:59,12:00,12:01,23:58,23:59} or |end-start| <= 1 (mod 1440) plus Hypothesis pairs. Non-trivial = end <= start "
        "(wrap or zero); distinct by (start, end)."
        ' Also: boundary rows repeated on DST-change days of 5 other host zones, and SwitcherSchedule objects built repeatedly with a re-used slot id; the two texts handed over as str-subclass instances and (str, Enum) members (text-forms); 70 000 (thorough 300 000) distinct pairs in one process followed by the first ones again (many-distinct).'
        " listed-schedules: get-schedules replies whose slot time stamps carry odd seconds or straddle offset changes are parsed; each listed object's duration must be that of the HH:MM start/end the same object reports.")
ASSUMPTIONS = ["the result must not depend on the host zone or date: boundary rows are repeated on DST-change days of 5 other host zones (time_machine)", "format H:MM:SS = str(timedelta) of whole minutes, hours not zero-padded, as the statement says"]

EDGE = [0, 1, 719, 720, 721, 1438, 1439]


def hhmm(m):
    return f"{m // 60:02d}:{m % 60:02d}"


def expected(s, e):
    d = (e - s) % 1440
    return f"{d // 60}:{d % 60:02d}:00"


def _calc():
    from aioswitcher.schedule.tools import calc_duration
    return calc_duration


def one(rep, sub, calc, s, e, ctx=None):
    got = calc(hhmm(s), hhmm(e))
    if got != expected(s, e):
        raise Violation("C14/duration-mismatch" + ("/equal" if s == e else "/wrap" if e < s else "/plain") + ("/host-zone" if ctx else ""),
                        dict({"start": s, "end": e}, **({"ctx": ctx} if ctx else {})), expected(s, e), got)


CONTEXTS = [None, ["America/New_York", 2024, 3, 10], ["Australia/Lord_Howe", 2024, 4, 7], ["Europe/London", 2024, 10, 27],
            ["Asia/Kathmandu", 2024, 6, 1], ["America/Havana", 2024, 3, 10]]


def body_rows(rep, case, sub="rows"):
    # the duration of two HH:MM strings has nothing to do with the host's zone or today's date: part of the rows run
    # on DST-change days of other host zones (virtual clock)
    ctx = case.get("ctx")
    if ctx:
        from .. import vclock
        rep.label("host-zone-not-utc")
        with vclock.frozen(ctx[0], ctx[1], ctx[2], ctx[3], 12, 0, 0):
            return _body_rows(rep, dict(case, ctxname=ctx[0]), sub)
    return _body_rows(rep, case, sub)


def _body_rows(rep, case, sub="rows"):
    calc = _calc()
    if "start" in case:
        s, e = case["start"], case["end"]
        rep.tick(sub, key=(s, e, case.get("ctxname")), nontrivial=e <= s, sample={"start": hhmm(s), "end": hhmm(e)})
        return one(rep, sub, calc, s, e, case.get("ctx"))
    for s in range(case["lo"], case["hi"]):
        ends = range(1440) if case["full"] or s in EDGE else sorted(set(EDGE + [(s - 1) % 1440, s, (s + 1) % 1440]))
        for e in ends:
            rep.tick(sub, key=(s, e, case.get("ctxname")), nontrivial=e <= s, sample={"start": hhmm(s), "end": hhmm(e)},
                     labels=("wrap",) if e < s else ("equal",) if e == s else ())
            one(rep, sub, calc, s, e, case.get("ctx"))


def body_forms(rep, case):
    """The two texts handed over as instances of a str subclass / members of a (str, Enum) class: same duration."""
    from .. import gen
    calc = _calc()
    s_, e_, form = case["start"], case["end"], case["form"]
    rep.tick("text-forms", key=(s_, e_, form), nontrivial=True, sample=case, labels=(f"form={form}",))
    try:
        got = calc(gen.text_form(hhmm(s_), form), gen.text_form(hhmm(e_), form))
    except Exception as exc:
        raise Violation(f"C14/raises-for-{form}", case, expected(s_, e_), f"{type(exc).__name__}: {exc}")
    if got != expected(s_, e_):
        raise Violation(f"C14/duration-mismatch/{form}", case, expected(s_, e_), got)


def cases_forms():
    from .. import gen
    out = []
    for form in gen.TEXT_FORMS:
        for k in range(0, 1440, 37):
            for e in (0, (k * 7 + 11) % 1440, k, (k - 1) % 1440, 1439):
                out.append({"start": k, "end": e, "form": form})
    return out


def body_many_distinct(rep, case):
    """More distinct pairs than any small table holds, in ONE process, then the first ones again."""
    calc = _calc()
    n, again = case["n"], case["again"]
    step = case.get("step", 7919)           # walk the 2,073,600 pairs with a stride coprime to it: no repeats before n
    rep.label("distinct-pairs-in-one-process", n)
    for phase, count in (("first-pass", n), ("again", again)):
        idx = case.get("offset", 0)
        for k in range(count):
            s_, e_ = divmod(idx % (1440 * 1440), 1440)
            if k % 64 == 0 or phase == "again":
                rep.tick("many-distinct", key=(s_, e_, phase), nontrivial=e_ <= s_, sample={"start": hhmm(s_), "end": hhmm(e_), "phase": phase})
            got = calc(hhmm(s_), hhmm(e_))
            if got != expected(s_, e_):
                raise Violation(f"C14/duration-mismatch/after-many-distinct-pairs/{phase}", dict(case, failing={"start": s_, "end": e_, "k": k}),
                                expected(s_, e_), got)
            idx += step


def body_objects(rep, case):
    """SwitcherSchedule objects report the duration of *their* times, also when the slot id was seen before with others."""
    from aioswitcher.schedule.parser import SwitcherSchedule
    sid = str(case["slot"])
    for (s_, e_) in case["pairs"]:
        rep.tick("schedule-objects", key=(sid, s_, e_), nontrivial=e_ <= s_, sample={"slot": sid, "start": hhmm(s_), "end": hhmm(e_)})
        obj = SwitcherSchedule(sid, False, set(), hhmm(s_), hhmm(e_))
        if obj.duration != expected(s_, e_):
            raise Violation("C14/schedule-object-duration/slot-id-seen-before", case, expected(s_, e_), obj.duration)
        # a copy with another end time (dataclasses.replace) is a schedule of its own: its duration is that of ITS times
        import dataclasses
        e2 = (e_ + 61) % 1440
        try:
            other = dataclasses.replace(obj, end_time=hhmm(e2))
        except Exception:
            other = None
        if other is not None and other.duration != expected(s_, e2):
            raise Violation("C14/schedule-object-duration/after-dataclasses-replace", case, expected(s_, e2), other.duration)


def body_listed(rep, case):
    """Schedules as get-schedules replies list them: slot timestamps carry seconds and may lie on either side of an offset
    change of the host zone, yet the duration reported is that of the HH:MM start and end the very same object reports."""
    from .. import vclock
    from ..ref import replies
    from aioswitcher.api.messages import SwitcherGetSchedulesResponse
    recs = [(i, True, 0x02 << (i % 7), 1, st_, en_, bytes(4)) for i, (st_, en_) in enumerate(case["stamps"])]
    with vclock.frozen(case["zone"], 2024, 6, 15, 12, 0, 0):
        resp = SwitcherGetSchedulesResponse(replies.schedules(recs))
        listed = {sch.schedule_id: sch for sch in resp.schedules}
    for i, (st_, en_) in enumerate(case["stamps"]):
        sch = listed.get(str(i))
        if sch is None:
            continue            # what is listed at all is C10's business
        whole = (en_ - st_) % 60 == 0
        rep.tick("listed-schedules", key=(case["zone"], st_, en_), nontrivial=not whole, sample={"zone": case["zone"], "start": st_, "end": en_},
                 labels=("stamps-a-whole-number-of-minutes-apart" if whole else "stamps-with-odd-seconds",))
        try:
            sm, em = [int(t[:2]) * 60 + int(t[3:]) for t in (sch.start_time, sch.end_time)]
        except Exception:
            continue            # malformed HH:MM texts are C10's business
        if sch.duration != expected(sm, em):
            raise Violation("C14/listed-schedule-duration" + ("" if whole else "/stamps-with-odd-seconds"),
                            {"zone": case["zone"], "stamps": [[st_, en_]]},
                            {"start_time": sch.start_time, "end_time": sch.end_time, "duration": expected(sm, em)}, sch.duration)


def strat_listed():
    from .. import vclock
    start = st.one_of(st.integers(0, 2 ** 32 - 1), st.integers(1_600_000_000, 1_900_000_000))
    pair = st.tuples(start, st.one_of(st.integers(0, 86_399), st.integers(0, 1439).map(lambda m: m * 60),
                                      st.integers(0, 8 * 86_400))).map(lambda t: [t[0], (t[0] + t[1]) % 2 ** 32])
    return st.builds(lambda z, pairs: {"zone": z, "stamps": pairs}, st.sampled_from(vclock.QUICK_ZONES), st.lists(pair, min_size=1, max_size=8))


def strat_objects():
    pair = st.tuples(st.integers(0, 1439), st.integers(0, 1439))
    return st.builds(lambda slot, pairs: {"slot": slot, "pairs": [list(p) for p in pairs]}, st.integers(0, 7),
                     st.lists(pair, min_size=2, max_size=6))


def strat_pairs():
    return st.tuples(st.integers(0, 1439), st.integers(0, 1439), st.sampled_from(CONTEXTS)).map(
        lambda t: dict({"start": t[0], "end": t[1]}, **({"ctx": t[2]} if t[2] else {})))


def subchecks(tier):
    full = tier == "thorough"
    cases = lambda: [{"lo": a, "hi": a + 30, "full": full} for a in range(0, 1440, 30)]  # noqa
    zcases = lambda: [{"lo": a, "hi": a + 60, "full": False, "ctx": c} for c in CONTEXTS[1:] for a in range(0, 1440, 60)]  # noqa
    subs = [Sub("rows", body_rows, cases=cases, shards=16, exhaustive=full),
            Sub("rows-other-host-zones", lambda rep, case: body_rows(rep, case, "rows-other-host-zones"), cases=zcases, shards=16)]
    subs.append(Sub("schedule-objects", body_objects, strategy=strat_objects, n=100_000 if full else 2500, shards=8 if full else 2))
    subs.append(Sub("listed-schedules", body_listed, strategy=strat_listed, n=40_000 if full else 1500, shards=8 if full else 2))
    subs.append(Sub("text-forms", body_forms, cases=cases_forms, shards=2, exhaustive=False))
    subs.append(Sub("many-distinct", body_many_distinct, shards=2, exhaustive=False,
                    cases=lambda: ([{"n": 70_000, "again": 6000}] if not full else
                                   [{"n": 140_000, "again": 80_000}, {"n": 300_000, "again": 40_000, "offset": 12345, "step": 104_729}])))
    if not full:
        subs.append(Sub("pairs", lambda rep, case: body_rows(rep, case, "pairs"), strategy=strat_pairs, n=20000, shards=4))
    return subs
