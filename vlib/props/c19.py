"""C19 - device types, categories, classes and ports are mutually consistent."""
import re

from hypothesis import strategies as st

from ..engine import Sub, Violation
from ..ref import broadcast as refb

PROP = "C19"
LEVEL = "exploration"
DESIGN_REF = "DESIGN.md section 3, C19"
TECHNIQUE = "exhaustive enumeration of (device type x device class) with Hypothesis-drawn remaining fields, and of both port tables, against reference tables"
LEVEL_TEXT = ("Every DeviceType member (read dynamically) is paired with every device class: construction must succeed "
              "iff the type's category is the class's own; model codes unique 2-byte hex; protocol types and both port "
              "tables equal the reference (type 1: 20002/9957, type 2: 20003/10000). The domain is finite and enumerated.")
RULE = ("all DeviceType members x the 4 device classes x 50 Hypothesis draws of the remaining constructor fields; all "
        "categories in both port tables; all pairs of types for code uniqueness. Non-trivial = every (type, class, "
        "fields) triple and every table row; distinct by that tuple."
        ' Also: every table re-checked after a bridge heard all nine device families on private ports and broadcasts sent from source ports 10002/10003/20002/20003 (tables-after-traffic); API objects of both types constructed first and connected later must arrive on the control port of their own type, and must fail rather than fall back when only the other port is open (api-dials-own-port).')
ASSUMPTIONS = ["reference tables: category<->class, protocol type -> (UDP, TCP) ports, and the 9 model codes, transcribed from the README / statement and pinned to the shipped captures for the type-1 codes"]

CLASS_CATEGORY = {
    "SwitcherPowerPlug": "POWER_PLUG", "SwitcherWaterHeater": "WATER_HEATER",
    "SwitcherThermostat": "THERMOSTAT", "SwitcherShutter": "SHUTTER",
}
PORTS = {1: (20002, 9957), 2: (20003, 10000)}
CATEGORY_PROTOCOL = {"POWER_PLUG": 1, "WATER_HEATER": 1, "THERMOSTAT": 2, "SHUTTER": 2}


def _dev():
    import aioswitcher.device as dev
    return dev


def construct(cls_name, dtype, f):
    dev = _dev()
    state = dev.DeviceState.ON if f["on"] else dev.DeviceState.OFF
    base = (dtype, state, f["id"], f["key"], f["ip"], f["mac"], f["name"])
    cls = getattr(dev, cls_name)
    if cls_name == "SwitcherPowerPlug":
        return cls(*base, f["power"], round(f["power"] / 220, 1))
    if cls_name == "SwitcherWaterHeater":
        return cls(*base, f["power"], round(f["power"] / 220, 1), "01:00:00", "03:00:00")
    if cls_name == "SwitcherThermostat":
        return cls(*base, list(dev.ThermostatMode)[f["n"] % 5], 23.5, 24, list(dev.ThermostatFanLevel)[f["n"] % 4],
                   list(dev.ThermostatSwing)[f["n"] % 2], "ELEC7022")
    return cls(*base, f["n"] % 101, list(dev.ShutterDirection)[f["n"] % 3])


def body_pairs(rep, case):
    dev = _dev()
    members = {d.name: d for d in dev.DeviceType}
    dtype = members.get(case["type"])
    if dtype is None:
        raise Violation("C19/type-missing", case, "DeviceType." + case["type"], sorted(members))
    cls_name = case["cls"]
    own = dtype.category.name == CLASS_CATEGORY[cls_name]
    rep.tick("type-x-class", key=case, nontrivial=True, sample=case, labels=("accept" if own else "refuse",))
    try:
        obj = construct(cls_name, dtype, case["fields"])
    except Exception as exc:
        if own:
            raise Violation(f"C19/own-type-refused/{cls_name}", case, "constructed", f"{type(exc).__name__}: {exc}")
        return
    if not own:
        raise Violation(f"C19/foreign-type-accepted/{cls_name}", case, "an exception", repr(obj)[:200])
    if obj.device_type is not dtype or obj.device_id != case["fields"]["id"] or obj.name != case["fields"]["name"]:
        raise Violation(f"C19/fields-not-kept/{cls_name}", case, case["fields"], repr(obj)[:200])


FIELDS = st.fixed_dictionaries({
    "on": st.booleans(), "id": st.text("0123456789abcdef", min_size=6, max_size=6),
    "key": st.text("0123456789abcdef", min_size=2, max_size=2),
    "ip": st.tuples(*[st.integers(0, 255)] * 4).map(lambda t: ".".join(map(str, t))),
    "mac": st.tuples(*[st.integers(0, 255)] * 6).map(lambda t: ":".join(f"{x:02X}" for x in t)),
    "name": st.text(min_size=1, max_size=16), "power": st.integers(0, 65535), "n": st.integers(0, 1000),
})


def type_names():
    return [d.name for d in _dev().DeviceType]


def make_pair_sub(tname, cname, n):
    strat = lambda: FIELDS.map(lambda f: {"type": tname, "cls": cname, "fields": f})  # noqa
    return Sub(f"type-x-class", body_pairs, strategy=strat, n=n, shards=1)


def body_tables(rep, case):
    dev = _dev()
    import aioswitcher.api as api
    import aioswitcher.bridge as bridge
    types = list(dev.DeviceType)
    cats = list(dev.DeviceCategory)
    rep.tick("tables", key="types", nontrivial=True,
             sample={"types": {d.name: [d.hex_rep, d.protocol_type, d.category.name] for d in types}})
    if sorted(c.name for c in cats) != sorted(CLASS_CATEGORY.values()):
        raise Violation("C19/categories", {}, sorted(CLASS_CATEGORY.values()), sorted(c.name for c in cats))
    seen = {}
    for d in types:
        key = {"type": d.name}
        rep.tick("tables", key=("type", d.name), nontrivial=True)
        if not (isinstance(d.hex_rep, str) and re.fullmatch(r"[0-9a-f]{4}", d.hex_rep)):
            raise Violation("C19/model-code-format", key, "[0-9a-f]{4}", d.hex_rep)
        if d.hex_rep in seen:
            raise Violation("C19/model-code-duplicate", key, "unique", [seen[d.hex_rep], d.name, d.hex_rep])
        seen[d.hex_rep] = d.name
        if d.protocol_type not in (1, 2):
            raise Violation("C19/protocol-type", key, "1 or 2", d.protocol_type)
        if not isinstance(d.category, dev.DeviceCategory):
            raise Violation("C19/category-type", key, "DeviceCategory", repr(d.category))
        if CATEGORY_PROTOCOL[d.category.name] != d.protocol_type:
            raise Violation("C19/category-protocol", key, CATEGORY_PROTOCOL[d.category.name], d.protocol_type)
        ref = refb.MODELS.get(d.hex_rep)
        if ref is None or ref[0] != d.name or ref[1] != d.category.name or ref[2] != d.protocol_type:
            raise Violation("C19/model-table", key, ref, [d.hex_rep, d.name, d.category.name, d.protocol_type])
        if not isinstance(d.value, str) or not d.value:
            raise Violation("C19/display-name", key, "non-empty str", repr(d.value))
    if len(types) != len(refb.MODELS):
        raise Violation("C19/type-count", {}, sorted(v[0] for v in refb.MODELS.values()), sorted(d.name for d in types))
    for c in cats:
        rep.tick("tables", key=("cat", c.name), nontrivial=True)
        proto = CATEGORY_PROTOCOL[c.name]
        udp = bridge.SWITCHER_DEVICE_TO_UDP_PORT.get(c)
        tcp = api.SWITCHER_DEVICE_TO_TCP_PORT.get(c)
        if (udp, tcp) != PORTS[proto]:
            raise Violation(f"C19/ports/{c.name}", {"category": c.name}, PORTS[proto], [udp, tcp])
    if set(bridge.SWITCHER_DEVICE_TO_UDP_PORT) != set(cats) or set(api.SWITCHER_DEVICE_TO_TCP_PORT) != set(cats):
        raise Violation("C19/port-table-keys", {}, sorted(c.name for c in cats),
                        [sorted(map(str, bridge.SWITCHER_DEVICE_TO_UDP_PORT)), sorted(map(str, api.SWITCHER_DEVICE_TO_TCP_PORT))])
    # public port constants, when the modules still export them under these names
    for mod, name, want in ((api, "SWITCHER_TCP_PORT_TYPE1", 9957), (api, "SWITCHER_TCP_PORT_TYPE2", 10000),
                            (bridge, "SWITCHER_UDP_PORT_TYPE1", 20002), (bridge, "SWITCHER_UDP_PORT_TYPE2", 20003)):
        got = getattr(mod, name, None)
        if got is not None:
            rep.tick("tables", key=("const", name), nontrivial=True)
            if got != want:
                raise Violation(f"C19/port-constant/{name}", {"constant": name}, want, got)


def body_after_traffic(rep, case):
    """The published tables are constants: they must still be right after a bridge heard every device family on
    non-default ports and after API objects were created (a table aliased by some bookkeeping dict would drift)."""
    from ..fake import net, udptx
    from .c07 import valid_fields

    inside = []

    def hook(device):
        # an application that builds device objects of its own while handling a broadcast (restoring a saved registry):
        # the classes guard their types inside a callback exactly as anywhere else
        dev_ = _dev()
        f = {"on": True, "id": "0a0b0c", "key": "18", "ip": "10.0.0.9", "mac": "02:00:00:00:00:09", "name": "kept", "power": 100, "n": len(inside)}
        for cls_name, cat in CLASS_CATEGORY.items():
            for dtype in dev_.DeviceType:
                try:
                    construct(cls_name, dtype, f)
                    ok = True
                except Exception:
                    ok = False
                if ok != (dtype.category.name == cat):
                    inside.append((cls_name, dtype.name, ok))

    async def run():
        rig = udptx.Rig(2)
        rig.hook = hook
        await rig.start()
        try:
            try:
                for i, code in enumerate(refb.MODELS):
                    await rig.send(rig.ports[i % 2], refb.encode(valid_fields(code, f"{i + 1:06x}", case.get("seed", 0))))
                await rig.barrier()
                # devices with newer firmware send from (and to) 10002 / 10003: broadcasts whose SOURCE port is one of the
                # four documented ports (sender bound on this process's private loopback address)
                import socket
                for sport in (10002, 10003, 20002, 20003):
                    sx = socket.socket(socket.AF_INET, socket.SOCK_DGRAM)
                    try:
                        sx.bind((net.loopback_ip(), sport))
                        for i, code in enumerate(refb.MODELS):
                            sx.sendto(refb.encode(valid_fields(code, f"{0x700 + i:06x}", sport)), ("127.0.0.1", rig.ports[i % 2]))
                    except OSError:
                        pass
                    finally:
                        sx.close()
                    await rig.barrier()
            except udptx.DeliveryStopped:
                pass            # a deaf bridge is C07's business; here only the tables matter
            return len(rig.callbacks)
        finally:
            await rig.stop()
    n = net.run(run(), timeout=60)
    rep.tick("tables-after-traffic", key=("traffic", case.get("seed", 0)), nontrivial=True, sample={"broadcasts_delivered": n})
    if inside:
        cls_name, tname, ok = inside[0]
        raise Violation(f"C19/{'foreign-type-accepted' if ok else 'own-type-refused'}/{cls_name}/inside-a-bridge-callback", case,
                        "the same answer as outside a callback", {"class": cls_name, "type": tname, "accepted": ok})
    body_tables(rep, case)


PORT_LISTS = [[20002, 20003], [10002, 10003], [20002], [20003], [10002], [10003], [20002, 10002], [20003, 10003],
              [20002, 20003, 10002, 10003], [10003, 10002], []]


def body_after_bridges(rep, case):
    """Bridge objects built (never started) for every combination of the documented ports - classic 20002/20003 and
    newer-firmware 10002/10003 - as list or tuple: the published category->port tables are constants and must not move."""
    from aioswitcher.bridge import SwitcherBridge
    ports = PORT_LISTS[case["ports"] % len(PORT_LISTS)]
    arg = tuple(ports) if case.get("as_tuple") else list(ports)
    try:
        b = SwitcherBridge(lambda d: None, arg) if ports or case.get("explicit_empty") else SwitcherBridge(lambda d: None)
    except Exception as exc:
        raise Violation("C19/bridge-construction-raises", case, "a bridge object", f"{type(exc).__name__}: {exc}")
    if b.is_running is not False:
        raise Violation("C19/unstarted-bridge-reports-running", case, False, b.is_running)
    rep.tick("tables-after-bridges", key=case, nontrivial=True, sample=dict(case, port_list=ports))
    del b
    body_tables(rep, case)


def body_dial(rep, case):
    """Several API objects of both protocol types are constructed first (in the generated order) and connected
    afterwards (in another order): each must reach the fake device on the control port of its own type.  With only the
    other type's port open, connect must fail instead of ending up on the wrong port."""
    from ..fake import env, net, ops, tcpdev

    async def run():
        dev = await env.device()
        await dev.kill_connections()
        apis = [(t, ops.make_api(t, dev.ip, f"{i + 1:06x}", "18")) for i, t in enumerate(case["types"])]
        seen = []
        try:
            for idx in case["connect_order"]:
                t, api = apis[idx % len(apis)]
                if getattr(api, "connected", False):
                    continue
                n0 = len(dev.conns)
                await api.connect()
                for _ in range(5000):
                    if len(dev.conns) > n0:
                        break
                    await asyncio.sleep(0)
                port = dev.conns[-1].port if len(dev.conns) > n0 else None
                seen.append((t, port))
        finally:
            for _, api in apis:
                try:
                    await api.disconnect()
                except Exception:
                    pass
        # only the other type's port is open: the connection must be refused
        refused = []
        for t in (1, 2):
            own = tcpdev.PORT1 if t == 1 else tcpdev.PORT2
            await dev.unlisten(own)
            api = ops.make_api(t, dev.ip, "0a0b0c", "18")
            n0 = len(dev.conns)
            try:
                try:
                    await asyncio.wait_for(api.connect(), 10)
                    await asyncio.sleep(0)
                    refused.append((t, "connected", dev.conns[-1].port if len(dev.conns) > n0 else None))
                except OSError:
                    refused.append((t, "OSError", None))
                except Exception as exc:  # noqa
                    refused.append((t, type(exc).__name__, None))
            finally:
                try:
                    await api.disconnect()
                except Exception:
                    pass
                await dev.listen(own)
        return seen, refused

    import asyncio
    seen, refused = net.run(run(), timeout=120)
    rep.tick("api-dials-own-port", key=case, nontrivial=len(set(case["types"])) > 1, sample=case)
    want = {1: 9957, 2: 10000}
    for t, port in seen:
        if port != want[t]:
            raise Violation(f"C19/api-type{t}-dials-port-{port}", case, want[t], {"type": t, "port": port, "all": seen})
    for t, outcome, port in refused:
        if outcome != "OSError":
            raise Violation(f"C19/api-type{t}-falls-back-to-other-port", case, "OSError (own control port closed)",
                            {"type": t, "outcome": outcome, "port": port})


def strat_dial():
    return st.builds(lambda types, order: {"types": types, "connect_order": order},
                     st.lists(st.sampled_from([1, 2]), min_size=1, max_size=5), st.lists(st.integers(0, 4), min_size=1, max_size=6))


def subchecks(tier):
    n = 500 if tier == "thorough" else 50
    subs = [Sub("tables", body_tables, cases=lambda: [{}], shards=1, exhaustive=True),
            Sub("tables-after-traffic", body_after_traffic, cases=lambda: [{"seed": i} for i in range(3)], shards=1, exhaustive=True)]
    subs.append(Sub("tables-after-bridges", body_after_bridges,
                    cases=lambda: [{"ports": i, "as_tuple": t} for i in range(len(PORT_LISTS)) for t in (False, True)], shards=1, exhaustive=True))
    subs.append(Sub("api-dials-own-port", body_dial, strategy=strat_dial, n=3000 if tier == "thorough" else 120, shards=1))
    names = sorted(set(type_names()) | {v[0] for v in refb.MODELS.values()})
    for t in names:
        for c in CLASS_CATEGORY:
            s = make_pair_sub(t, c, n)
            s.name = f"type-x-class"
            s.exhaustive = True
            subs.append(s)
    return subs
