"""Shared Hypothesis strategies producing JSON-serialisable cases."""
from hypothesis import strategies as st

from .ref import irset

HEX = "0123456789abcdef"

device_ids = st.one_of(
    st.binary(min_size=3, max_size=3).map(bytes.hex),
    st.sampled_from(["000000", "ffffff", "0a0b0c", "a123bc", "00ff00", "100000", "000001"]),
)
keys_int = st.one_of(st.integers(0, 255), st.sampled_from([0, 1, 9, 10, 15, 16, 0x18, 127, 128, 255]))
sessions = st.one_of(
    st.binary(min_size=4, max_size=4).map(bytes.hex),
    st.sampled_from(["00000000", "ffffffff", "01000000", "00000001", "0a000b00", "f0fe0000", "fef00000", "000a0000"]),
)
timestamps = st.one_of(
    st.integers(200_000, 2 ** 32 - 300_000),
    st.sampled_from([200_000, 946684800, 1_700_000_000, 2 ** 31 - 1, 2 ** 31, 2 ** 31 + 1, 2 ** 32 - 300_000]),
)
timestamps_wide = st.one_of(timestamps, st.sampled_from([1, 2, 255, 256, 65535, 65536, 2 ** 32 - 2]))
login_lens = st.one_of(st.just(44), st.integers(12, 1024), st.sampled_from([12, 13, 43, 45, 48, 1023, 1024]))

ASCII = "abcdefghijklmnopqrstuvwxyzABCDEFGHIJKLMNOPQRSTUVWXYZ0123456789 _-'!"
HEBREW = "אבגדהוזחטיכלמנסעפצקרשת "
ACCENT = "éèêëàâäôöùûüçñãõÉÀÖÜßøåÆ"
FOURBYTE = "😀🏠🔥💧🌡🪟𝔸𐍈"
# characters whose Unicode normal forms differ from themselves (combining marks after a base letter, compatibility and
# presentation forms): a name is a byte string to the device, any "normalisation" on the way changes what was asked for
BOM = "\ufeff"      # a legal code point; codecs like utf-8-sig silently eat it at the start of a string
NOT_NFC = ["e\u0301", "a\u0308", "o\u0302", "A\u030a", "\u212b", "\u2126", "\ufb2a", "\ufb1d", "\u05e9\u05c1", "n\u0303", "\ufb01", "x", " ", "\ufeff"]
ALPHABETS = [ASCII, HEBREW, ACCENT, FOURBYTE, ASCII + HEBREW + ACCENT + FOURBYTE, NOT_NFC]


def names(min_chars=0, max_chars=40):
    def of(al):
        if isinstance(al, list):        # multi-code-point units
            return st.lists(st.sampled_from(al), min_size=(min_chars + 1) // 2, max_size=max(1, max_chars // 2)).map("".join).filter(
                lambda s: min_chars <= len(s) <= max_chars)
        return st.text(alphabet=al, min_size=min_chars, max_size=max_chars)
    return st.sampled_from(ALPHABETS).flatmap(of)


def dst_timestamps(zones=("Asia/Jerusalem", "America/New_York", "Europe/London", "Australia/Lord_Howe", "America/Havana")):
    """(zone, epoch) pairs whose epoch lies in the hours around a UTC-offset change of that zone."""
    from . import vclock
    return st.sampled_from(list(zones)).flatmap(lambda z: st.sampled_from(vclock.transition_epochs(z)).map(lambda t: (z, t)))


def accepted_name(s):
    return len(s) >= 2 and len(s.encode("utf-8")) <= 32


accepted_names = names(2, 32).filter(accepted_name) | st.sampled_from(
    ["ab", "x" * 32, "שלום עולם", "א" * 16, "😀" * 8, "é" * 16, "My Boiler", "a😀", "Cafe\u0301 boiler", "\u212bngstrom", "\ufb2a\ufb2a", "\ufeffBoiler", "\ufeff\ufeff"])

minutes_ok = st.one_of(st.integers(0, 71_582_788), st.sampled_from([0, 1, 2, 59, 60, 61, 90, 1440, 71_582_787, 71_582_788]))
shutdown_ok = st.one_of(st.integers(3600, 86399), st.sampled_from([3600, 3601, 3659, 3660, 86340, 86341, 86399, 7200, 5400]))
slots = st.integers(0, 7).map(str)
DAY_NAMES = ["MONDAY", "TUESDAY", "WEDNESDAY", "THURSDAY", "FRIDAY", "SATURDAY", "SUNDAY"]
day_sets = st.integers(0, 127).map(lambda m: [DAY_NAMES[i] for i in range(7) if m >> i & 1])
clock = st.tuples(st.integers(0, 23), st.integers(0, 59)).map(lambda t: f"{t[0]:02d}:{t[1]:02d}")
positions = st.one_of(st.integers(0, 100), st.sampled_from([0, 1, 9, 10, 15, 16, 99, 100]))


def ir_specs(special=None, lens=None, dense=None, toggle=None):
    """IR-set specs (see ref.irset.expand)."""
    def mk(t):
        sp, idn, tog, modes_mask, trange, dens, seed, ln, off = t
        use_special = sp if special is None else special
        ids = irset.SPECIAL_SWING_IDS if use_special else irset.ORDINARY_IDS
        modes = [m for i, m in enumerate(irset.MODES) if modes_mask >> i & 1] or ["cool"]
        lo, hi = min(trange), max(trange)
        spec = {"id": ids[idn % len(ids)], "toggle": tog if toggle is None else toggle, "modes": modes,
                "tmin": lo, "tmax": hi, "density": dens if dense is None else (100 if dense else dens),
                "seed": seed, "lens": ln if lens is None else lens, "fun": bool(use_special), "off": off}
        if not dense:
            if seed % 7 == 0 and hi > lo:
                spec["lonely_min"] = True
            if seed % 5 == 0:
                spec["auto_temps"] = [max(10, lo - 3), min(60, hi + 4)]
            if seed % 3 == 1:
                spec["d1_only_prefixed"] = True
        return spec
    return st.tuples(
        st.booleans(), st.integers(0, 9), st.booleans(), st.integers(1, 31),
        st.tuples(st.integers(10, 40), st.integers(10, 40)),
        st.sampled_from([100, 100, 80, 40]), st.integers(0, 10 ** 6),
        st.one_of(st.just("short"), st.just("mixed"), st.sampled_from(irset.LEN_CHOICES)),
        st.sampled_from([True, True, True, False]),
    ).map(mk)


def breeze_request(spec_strategy, need=("state", "mode", "target", "fan", "swing"), swing_only=False):
    """(spec, req, cur): a request whose mode is supported by the set."""
    def mk(t):
        spec, on, mi, target, fan, swing, cur_on, cur_mi, cur_t, cur_f, cur_s, temp = t
        modes = spec["modes"]
        req = {"state": on, "mode": modes[mi % len(modes)], "target": target, "fan": fan, "swing": swing}
        if swing_only:
            req = {"state": None, "mode": None, "target": 0, "fan": None, "swing": swing}
        cur = {"on": cur_on, "mode": modes[cur_mi % len(modes)], "fan": cur_f, "swing": cur_s, "target": cur_t,
               "temp_tenths": temp, "remote_id": spec["id"]}
        return {"ir": spec, "req": req, "cur": cur}
    return st.tuples(spec_strategy, st.booleans(), st.integers(0, 4), st.integers(1, 60), st.integers(0, 3),
                     st.booleans(), st.booleans(), st.integers(0, 4), st.integers(16, 30), st.integers(0, 3),
                     st.booleans(), st.integers(0, 65535)).map(mk)


def op_args(kind):
    """Accepted arguments for an operation kind."""
    if kind in ("get_state", "get_schedules", "stop", "get_shutter_state"):
        return st.just({})
    if kind == "get_breeze_state":
        return st.just({})
    if kind == "control_on":
        return st.one_of(st.just({}), minutes_ok.map(lambda m: {"minutes": m}))
    if kind == "control_off":
        # the timer is documented for turning on only: OFF with minutes > 0 is left unspecified and not generated
        return st.sampled_from([{}, {"minutes": 0}])
    if kind == "set_auto_shutdown":
        return st.tuples(shutdown_ok, st.integers(0, 999_999)).map(lambda t: {"seconds": t[0], "micros": t[1]})
    if kind == "set_device_name":
        return accepted_names.map(lambda n: {"name": n})
    if kind == "delete_schedule":
        return slots.map(lambda s: {"slot": s})
    if kind == "create_schedule":
        return st.tuples(clock, clock, st.one_of(st.none(), day_sets), st.sampled_from(["set", "set", "frozenset", "list", "tuple"])).map(
            lambda t: {"start": t[0], "end": t[1], "days": t[2], "days_form": t[3]} if t[2] is not None
            else {"start": t[0], "end": t[1], "days": None})
    if kind == "set_position":
        return st.one_of(st.just({}), positions.map(lambda p: {"position": p}))
    if kind == "breeze_command":
        return breeze_request(ir_specs(special=False, dense=True)).map(_force_on)
    if kind == "breeze_status":
        return breeze_request(ir_specs(dense=True)).map(_force_on)
    if kind == "breeze_swing_only":
        return breeze_request(ir_specs(special=True, dense=True), swing_only=True)
    if kind == "breeze_command_swing":
        return breeze_request(ir_specs(special=True, dense=True)).map(_force_on)
    raise KeyError(kind)


def _force_on(a):
    # DeviceState.OFF / ThermostatSwing.OFF ... are all truthy enum members, so every given setting counts as requested
    return a


# -- equivalent forms of a text argument --------------------------------------------------------------------------
class Text(str):
    """A plain str subclass (what a caller's own wrapper type for clock strings, names or hex text looks like)."""
    __slots__ = ()


_ENUMS = {}


def text_form(value: str, form: str):
    """The same text as a str, as an instance of a str subclass, or as a member of a (str, Enum) class."""
    if form == "subclass":
        return Text(value)
    if form == "enum-member":
        import enum
        cls = _ENUMS.get(value)
        if cls is None:
            if len(_ENUMS) > 512:
                _ENUMS.clear()
            cls = _ENUMS[value] = enum.Enum("Preset", {"CHOICE": value}, type=str)
        return cls.CHOICE
    return value


TEXT_FORMS = ["subclass", "enum-member"]
