"""Virtual clock + host time zone (time_machine) and zoneinfo helpers for the oracles.

The library under test reads time.time / time.localtime / time.strftime / time.mktime / datetime.now;
time_machine freezes those and sets TZ+tzset when the destination carries a ZoneInfo.  Oracles never
call libc: they use zoneinfo + aware datetime arithmetic.
"""
import datetime as dt
import functools
from contextlib import contextmanager
from zoneinfo import ZoneInfo

import time_machine

ZONES = [
    "UTC", "Asia/Jerusalem", "America/New_York", "Australia/Lord_Howe", "Asia/Kathmandu", "Pacific/Kiritimati",
    "Pacific/Pago_Pago", "Pacific/Chatham", "America/St_Johns", "Europe/London", "Australia/Sydney",
    "America/Sao_Paulo", "America/Havana", "Africa/Cairo", "Asia/Tehran", "America/Santiago",
]
QUICK_ZONES = ZONES[:8]
UTC = dt.timezone.utc


@functools.lru_cache(maxsize=None)
def zone(name):
    return ZoneInfo(name)


@contextmanager
def frozen(zone_name, y, mo, d, h=12, mi=0, s=0, fold=0, micro=0):
    dest = dt.datetime(y, mo, d, h, mi, s, micro, tzinfo=zone(zone_name), fold=fold)
    with time_machine.travel(dest, tick=False):
        yield dest


@contextmanager
def frozen_epoch(zone_name, epoch):
    dest = dt.datetime.fromtimestamp(epoch, zone(zone_name))
    with time_machine.travel(dest, tick=False):
        yield dest


@functools.lru_cache(maxsize=None)
def transition_days(zone_name, y0=2015, y1=2037):
    """Local dates on which the UTC offset differs between 00:00 and 24:00 (DST or rule changes)."""
    z = zone(zone_name)
    out = []
    day = dt.date(y0, 1, 1)
    end = dt.date(y1, 12, 31)
    prev = dt.datetime(day.year, day.month, day.day, 0, 0, tzinfo=z).utcoffset()
    while day <= end:
        nxt = day + dt.timedelta(days=1)
        off = dt.datetime(nxt.year, nxt.month, nxt.day, 0, 0, tzinfo=z).utcoffset()
        # offset at start of next day vs start of this day
        if off != prev:
            out.append(day)
        prev = off
        day = nxt
    return out


def candidates(zone_name, date, hh, mm):
    """Epoch seconds whose wall time in the zone is date hh:mm (0, 1 or 2 values)."""
    z = zone(zone_name)
    naive = dt.datetime(date.year, date.month, date.day, hh, mm)
    out = set()
    for fold in (0, 1):
        aware = naive.replace(tzinfo=z, fold=fold)
        epoch = int(aware.timestamp())
        back = dt.datetime.fromtimestamp(epoch, z).replace(tzinfo=None)
        if back == naive:
            out.add(epoch)
    return out


def wall(zone_name, epoch):
    return dt.datetime.fromtimestamp(epoch, zone(zone_name))


@functools.lru_cache(maxsize=None)
def transition_epochs(zone_name, y0=2022, y1=2027):
    """Epoch seconds within +-2 h (15 min steps) of every UTC-offset change of the zone: the repeated / skipped hours."""
    z = zone(zone_name)
    out = []
    for day in transition_days(zone_name):
        if not (y0 <= day.year <= y1):
            continue
        lo = int(dt.datetime(day.year, day.month, day.day, tzinfo=UTC).timestamp()) - 14 * 3600
        prev = dt.datetime.fromtimestamp(lo, z).utcoffset()
        for t in range(lo, lo + 52 * 3600, 900):
            off = dt.datetime.fromtimestamp(t, z).utcoffset()
            if off != prev:
                out.extend(range(t - 7200, t + 7201, 900))
                prev = off
    return sorted(set(out))
