"""Reference models are pinned against artefacts that do not come from the code under test."""
from .boot import HarnessError


def run(verbose=False):
    from .ref import broadcast, crc, replies, wire
    for mod in (crc, wire, replies, broadcast):
        try:
            mod.selftest()
        except AssertionError as exc:
            raise HarnessError(f"reference self-test failed in {mod.__name__}: {exc}")
        if verbose:
            print(f"  {mod.__name__}: ok")
