"""Independent bitwise CRC-16 (poly 0x1021, MSB first, no reflection, no xor-out) and the
protocol's double-CRC signature.  No table, no binascii.crc_hqx."""

POLY = 0x1021


def crc16(data: bytes, init: int) -> int:
    reg = init & 0xFFFF
    for byte in data:
        reg ^= byte << 8
        for _ in range(8):
            if reg & 0x8000:
                reg = ((reg << 1) ^ POLY) & 0xFFFF
            else:
                reg = (reg << 1) & 0xFFFF
    return reg


def signature(body: bytes) -> bytes:
    """4 bytes: LE16(crc(body)) then LE16(crc(LE16(crc(body)) + 32 x 0x30)), init 0x1021."""
    first = crc16(body, 0x1021).to_bytes(2, "little")
    second = crc16(first + b"\x30" * 32, 0x1021).to_bytes(2, "little")
    return first + second


def sign(body: bytes) -> bytes:
    return body + signature(body)


def selftest():
    # catalogued check values of "123456789" for the three classic initial values
    msg = b"123456789"
    assert crc16(msg, 0x0000) == 0x31C3, "XMODEM check value"
    assert crc16(msg, 0xFFFF) == 0x29B1, "CCITT-FALSE check value"
    assert crc16(msg, 0x1D0F) == 0xE5CC, "AUG-CCITT check value"
