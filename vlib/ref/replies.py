"""Reference encoders for device -> client replies (DESIGN.md appendix A.2)."""
import os

from ..boot import REPO


def _noise(n, salt):
    # deterministic non-zero filler, distinct neighbouring bytes
    return bytes(((i * 37 + salt * 11) % 251) + 1 for i in range(n))


def login(session_hex, length=44, salt=1):
    b = bytearray(_noise(length, salt))
    b[0:2] = b"\xfe\xf0"
    if length >= 12:
        b[8:12] = bytes.fromhex(session_hex)
    return bytes(b)


def ack(length=48, salt=3):
    """Acknowledgement of a command.  Nothing in the statements looks inside it; a third are plain noise, the others are
    well-formed frames as a real device sends them (magic, own length in bytes 2-3, valid signature), half of those with
    a 02 at offset 14 and a non-zero word at 16..19."""
    b = bytearray(_noise(length, salt))
    style = salt % 3
    if style and length >= 24:
        from . import crc
        b[0:2] = b"\xfe\xf0"
        b[2:4] = length.to_bytes(2, "little")
        if style == 2:
            b[14] = 2
            b[16:20] = bytes([1 + salt % 200, 2, 3, 4])
        b[-4:] = crc.signature(bytes(b[:-4]))
    return bytes(b)


def state1(on, power, time_left, time_on, auto_shutdown, salt=5, length=107):
    b = bytearray(_noise(length, salt))
    b[0:2] = b"\xfe\xf0"
    b[75] = 1 if on else 0
    b[77:79] = int(power).to_bytes(2, "little")
    b[89:93] = int(time_left).to_bytes(4, "little")
    b[93:97] = int(time_on).to_bytes(4, "little")
    b[97:101] = int(auto_shutdown).to_bytes(4, "little")
    return bytes(b)


def thermostat(on, mode, fan, swing, temp_tenths, target, remote_id, salt=7, length=109, name=b"Switcher Breeze_0001"):
    b = bytearray(_noise(length, salt))
    b[0:2] = b"\xfe\xf0"
    b[40:72] = name + bytes(32 - len(name))
    b[76:78] = int(temp_tenths).to_bytes(2, "little")
    b[78] = 1 if on else 0
    b[79] = mode
    b[80] = target
    b[81] = (fan << 4) | swing
    rid = remote_id.encode("utf-8") if isinstance(remote_id, str) else remote_id
    b[84:92] = rid + bytes(8 - len(rid))
    return bytes(b)


DIRECTIONS = {"stop": b"\x00\x00", "up": b"\x01\x00", "down": b"\x00\x01"}


def shutter(position, direction, salt=9, length=100):
    b = bytearray(_noise(length, salt))
    b[0:2] = b"\xfe\xf0"
    b[76] = position
    b[78:80] = DIRECTIONS[direction]
    return bytes(b)


def schedules(records, header=None, trailer=b"\xc7\x6b\xd3\xcb"):
    """records: list of (slot, enabled, mask, state, start, end, opaque4)."""
    out = bytearray(header if header is not None else bytes(45))
    assert len(out) == 45
    for slot, enabled, mask, state, start, end, opaque in records:
        out += bytes([slot, 1 if enabled else 0, mask, state])
        out += int(start).to_bytes(4, "little") + int(end).to_bytes(4, "little") + opaque
    out += trailer
    return bytes(out)


def _cap(rel):
    with open(os.path.join(REPO, "tests", "testresources", rel), encoding="utf-8") as fh:
        return bytes.fromhex(fh.read().strip())


def selftest():
    """The encoders must reproduce the shipped captures at every byte they own."""
    def owned(cap, ref, spans, what):
        assert len(cap) == len(ref), f"{what}: length {len(ref)} != capture {len(cap)}"
        for a, b in spans:
            assert cap[a:b] == ref[a:b], f"{what}: bytes {a}..{b} {ref[a:b].hex()} != capture {cap[a:b].hex()}"

    cap = _cap("dummy_responses/get_breeze_state.txt")
    ref = thermostat(False, 2, 0, 0, 281, 24, "ELEC7022", length=len(cap), name=b"Switcher Breeze_5679")
    owned(cap, ref, [(0, 2), (40, 72), (76, 82), (84, 92)], "thermostat reply")
    assert len(cap) == 109

    cap = _cap("dummy_responses/get_shutter_state_response.txt")
    ref = shutter(50, "stop", length=len(cap))
    owned(cap, ref, [(0, 2), (76, 77), (78, 80)], "shutter reply")
    assert len(cap) == 100

    cap = _cap("dummy_responses/get_state_response.txt")
    # documented by tests/test_api_tcp_client.py: off, no time, auto shutdown 03:00:00
    ref = state1(False, 0, 0, 0, 10800, length=len(cap))
    owned(cap, ref, [(75, 76), (77, 79), (89, 101)], "type-1 state reply")
    assert len(cap) == 107, len(cap)

    cap = _cap("test_schedule_parser/test_get_schedules_with_a_two_schedules_packet.txt")
    ref = schedules(
        [(0, True, 0xFC, 1, 0x5CA371E8, 0x5CA37FF8, bytes.fromhex("ce0e0000")),
         (1, True, 0x02, 1, 0x5CA36AE0, 0x5CA378F0, bytes.fromhex("ce0e0000"))],
        header=cap[:45], trailer=cap[-4:],
    )
    assert cap == ref, "get-schedules reply layout"

    cap = _cap("dummy_responses/login2_response.txt")
    assert len(cap) == 44 and cap[8:12] == bytes(4)
