"""Reference encoder / classifier for the three UDP status broadcast layouts (appendix A.3)."""
import os

from ..boot import REPO

# model code -> (family, category, protocol type)
MODELS = {
    "030f": ("MINI", "WATER_HEATER", 1),
    "01a8": ("POWER_PLUG", "POWER_PLUG", 1),
    "030b": ("TOUCH", "WATER_HEATER", 1),
    "01a7": ("V2_ESP", "WATER_HEATER", 1),
    "01a1": ("V2_QCA", "WATER_HEATER", 1),
    "0317": ("V4", "WATER_HEATER", 1),
    "0e01": ("BREEZE", "THERMOSTAT", 2),
    "0c01": ("RUNNER", "SHUTTER", 2),
    "0c02": ("RUNNER_MINI", "SHUTTER", 2),
}
FAMILY_TO_CODE = {v[0]: k for k, v in MODELS.items()}
LENGTH = {"WATER_HEATER": 165, "POWER_PLUG": 165, "THERMOSTAT": 168, "SHUTTER": 159}
CLASS_OF = {
    "WATER_HEATER": "SwitcherWaterHeater", "POWER_PLUG": "SwitcherPowerPlug",
    "THERMOSTAT": "SwitcherThermostat", "SHUTTER": "SwitcherShutter",
}
DIRECTIONS = {"stop": b"\x00\x00", "up": b"\x01\x00", "down": b"\x00\x01"}
ACCEPTED_LENGTHS = (165, 168, 159)


def _noise(n, salt):
    return bytes(((i * 29 + salt * 13) % 251) + 1 for i in range(n))


def encode(f, salt=2):
    """f: dict of field values (see C05).  Returns the datagram bytes."""
    code = f["model"]
    _, cat, _ = MODELS[code]
    n = LENGTH[cat]
    b = bytearray(_noise(n, salt))
    b[0:2] = b"\xfe\xf0"
    b[2:4] = n.to_bytes(2, "little")
    b[18:21] = bytes.fromhex(f["device_id"])
    b[38:40] = b"\xf0\xfe"
    b[40] = f["key"]
    name = f["name"].encode("utf-8") if isinstance(f["name"], str) else f["name"]
    assert 0 < len(name) <= 32
    b[42:74] = name + bytes(32 - len(name))
    b[74:76] = bytes.fromhex(code)
    ip = bytes(f["ip"])
    mac = bytes(f["mac"])
    if cat in ("WATER_HEATER", "POWER_PLUG"):
        b[76:80] = ip
        b[80:86] = mac
        b[133] = 1 if f["on"] else 0
        b[135:137] = int(f["power"]).to_bytes(2, "little")
        b[147:151] = int(f["remaining"]).to_bytes(4, "little")
        b[155:159] = int(f["auto_shutdown"]).to_bytes(4, "little")
    elif cat == "THERMOSTAT":
        b[76] = 0
        b[77:81] = ip
        b[81:87] = mac
        b[135:137] = int(f["temp_tenths"]).to_bytes(2, "little")
        b[137] = 1 if f["on"] else 0
        b[138] = f["mode"]
        b[139] = f["target"]
        b[140] = (f["fan"] << 4) | f["swing"]
        rid = f["remote_id"].encode("ascii")
        assert len(rid) == 8
        b[143:151] = rid
    else:
        b[76] = 0
        b[77:81] = ip
        b[81:87] = mac
        b[135] = f["position"]
        b[136] = 0
        b[137:139] = DIRECTIONS[f["direction"]]
    return bytes(b)


def gate(d: bytes) -> bool:
    """The acceptance gate as C06 states it."""
    return len(d) in ACCEPTED_LENGTHS and d[0:2] == b"\xfe\xf0"


def model_of(d: bytes):
    return d[74:76].hex()


def _cap(rel):
    with open(os.path.join(REPO, "tests", "testresources", rel), encoding="utf-8") as fh:
        return bytes.fromhex(fh.read().strip())


def captures():
    """(name, bytes) of every broadcast capture shipped with the tests."""
    out = []
    base = os.path.join(REPO, "tests", "testresources")
    for sub in ("test_device_parsing", "test_udp_datagram_parsing", "test_bridge"):
        d = os.path.join(base, sub)
        for fn in sorted(os.listdir(d)):
            try:
                with open(os.path.join(d, fn), encoding="utf-8") as fh:
                    out.append((f"{sub}/{fn}", bytes.fromhex(fh.read().strip())))
            except ValueError:
                pass
    return out


def selftest():
    def owned(cap, ref, spans, what):
        assert len(cap) == len(ref), f"{what}: length {len(ref)} != capture {len(cap)}"
        for a, b in spans:
            assert cap[a:b] == ref[a:b], f"{what}: bytes {a}..{b} {ref[a:b].hex()} != capture {cap[a:b].hex()}"

    common = [(0, 4), (18, 21), (38, 41), (42, 76)]
    cap = _cap("test_device_parsing/test_a_breeze_datagram_produces_device.txt")
    ref = encode(dict(model="0e01", device_id="3a20b7", key=0x08, name="Switcher Breeze_5679",
                      ip=[192, 168, 50, 77], mac=[0xBC, 0xFF, 0x4D, 0x4A, 0x56, 0x79], on=False, mode=2,
                      target=24, fan=0, swing=0, temp_tenths=281, remote_id="ELEC7022"))
    owned(cap, ref, common + [(76, 87), (135, 141), (143, 151)], "breeze broadcast")

    cap = _cap("test_device_parsing/test_a_runner_datagram_produces_device.txt")
    ref = encode(dict(model="0c02", device_id="f2239a", key=0x06, name="Switcher Run_1E42",
                      ip=[192, 168, 50, 98], mac=[0x94, 0xB9, 0x7E, 0x01, 0x1E, 0x42],
                      position=24, direction="stop"))
    owned(cap, ref, common + [(76, 87), (135, 139)], "runner broadcast")

    cap = _cap("test_device_parsing/test_a_water_heater_datagram_produces_device.txt")
    ref = encode(dict(model="01a7", device_id="aaaaaa", key=0x03, name="My Switcher Boiler",
                      ip=[192, 168, 1, 33], mac=[0x12, 0xA1, 0xA2, 0x1A, 0xBC, 0x1A], on=True,
                      power=2600, remaining=5400, auto_shutdown=10800))
    owned(cap, ref, common + [(76, 86), (133, 134), (135, 137), (147, 151), (155, 159)], "water heater broadcast")

    cap = _cap("test_device_parsing/test_a_power_plug_datagram_produces_device.txt")
    ref = encode(dict(model="01a8", device_id="aaaaaa", key=0x03, name="My Switcher Boiler",
                      ip=[192, 168, 1, 33], mac=[0x12, 0xA1, 0xA2, 0x1A, 0xBC, 0x1A], on=True,
                      power=2600, remaining=0, auto_shutdown=0))
    owned(cap, ref, common + [(76, 86), (133, 134), (135, 137)], "power plug broadcast")

    # the 12 type-1 on/off captures pin the six type-1 model codes and the state byte
    want = {"mini": "030f", "power_plug": "01a8", "touch": "030b", "v2_esp": "01a7", "v2_qca": "01a1", "v4": "0317"}
    seen = 0
    for name, data in captures():
        if "test_datagram_state_" not in name:
            continue
        stem = name.split("test_datagram_state_")[1][:-4]
        state, fam = stem.split("_", 1)
        assert len(data) == 165 and gate(data), name
        assert model_of(data) == want[fam], f"{name}: model {model_of(data)}"
        assert data[133] == (1 if state == "on" else 0), f"{name}: state byte {data[133]}"
        seen += 1
    assert seen == 12, seen
