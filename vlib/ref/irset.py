"""IR code-set generator (pure function of a small JSON spec) and the reference lookup model of C15.

Key grammar read off the statement and the Switcher IR database format:
  aa|ad|aw [_fN [_d1]]            auto / dry / fan
  ar|ah TT [_fN [_d1]]            cool / heat with a two-digit temperature
  off                             plain power-off code of non-toggle remotes
  on_<key>                        toggle remotes: the code that also flips the power state
  FUN_d0 / FUN_d1                 separate swing command of the special remotes
"""
import hashlib

MODE_CODE = {"auto": "aa", "dry": "ad", "fan": "aw", "cool": "ar", "heat": "ah"}
CODE_MODE = {v: k for k, v in MODE_CODE.items()}
MODE_BYTE = {"auto": 1, "dry": 2, "fan": 3, "cool": 4, "heat": 5}
MODES = ["auto", "dry", "fan", "cool", "heat"]
FANS = ["auto", "low", "medium", "high"]          # protocol nibble 0,1,2,3 -> _f0.._f3
SPECIAL_SWING_IDS = ["ELEC7022", "ZM079055", "ZM079065", "ZM079049"]
ORDINARY_IDS = ["ELEC7001", "ELEC7003", "GREE0012", "TADI0101", "ZM079010"]
LEN_CHOICES = [1, 2, 3, 5, 7, 8, 11, 12, 13, 160, 161, 164, 165, 166, 170, 247, 248, 249, 250, 251, 252, 253, 255,
               256, 300, 500, 507, 508, 509, 1000, 1999, 2000]


def _h(*parts):
    return int.from_bytes(hashlib.blake2b("/".join(map(str, parts)).encode(), digest_size=8).digest(), "big")


def _text(key, seed, length):
    """(Para, HexCode) whose joined form Para|HexCode has exactly `length` bytes (>= 1)."""
    if length <= 1:
        return "", ""
    tag = f"{key}#{_h(seed, key, 't') % 100000:05d}"
    room = length - 1
    hexlen = min(room // 3, 40)
    paralen = room - hexlen
    para = (tag + "|NECX|26|32|15,15|15,40|" * 60)[:paralen]
    if paralen > len(para):
        para = (para * (paralen // max(1, len(para)) + 1))[:paralen]
    hexcode = (f"{_h(seed, key, 'x'):016X}" * 3)[:hexlen]
    # the stored text is opaque to the library: some sets spell their codes in lower case or with a 0x / 0X prefix
    style = _h(seed, key, "style") % 10
    if style == 0 and hexlen >= 3:
        hexcode = "0x" + hexcode[2:]
    elif style == 1 and hexlen >= 3:
        hexcode = "0X" + hexcode[2:].lower()
    elif style == 2:
        hexcode = hexcode.lower()
    return para, hexcode


def candidate_keys(spec):
    keys = []
    for m in spec["modes"]:
        code = MODE_CODE[m]
        bases = [code] if m in ("auto", "dry", "fan") else [f"{code}{t}" for t in range(spec["tmin"], spec["tmax"] + 1)]
        for b in bases:
            keys.append(b)
            for f in range(4):
                keys.append(f"{b}_f{f}")
                keys.append(f"{b}_f{f}_d1")
    return keys


def expand(spec):
    """spec: {id, toggle, modes, tmin, tmax, density, seed, lens, fun, off}.

    lens: "short" (20..120 bytes), "mixed" (boundary-biased 1..2000) or an int (every text that long).
    """
    seed = spec.get("seed", 0)
    dens = spec.get("density", 100)
    plain = candidate_keys(spec)
    keep = [k for k in plain if _h(seed, k, "d") % 100 < dens]
    for m in spec["modes"]:
        code = MODE_CODE[m]
        if not any(k.startswith(code) for k in keep):
            keep.append(code if m in ("auto", "dry", "fan") else f"{code}{spec['tmin']}")
        if m in ("cool", "heat"):
            for t in (spec["tmin"], spec["tmax"]):
                if not any(k.startswith(f"{code}{t}") for k in keep):
                    keep.append(f"{code}{t}")
    keys = list(keep)
    if spec["toggle"]:
        keys += ["on_" + k for k in plain if _h(seed, "on_" + k, "d") % 100 < dens]
        if spec.get("off", True) and seed % 3 == 0:
            keys.append("off")      # a toggle remote may still store a plain off code; it must not be used
    elif spec.get("off", True):
        keys.append("off")
    if spec.get("fun", False):
        keys += ["FUN_d0", "FUN_d1"]
    at = spec.get("auto_temps")
    if at and "auto" in spec["modes"]:
        # auto-mode entries that carry a temperature (they exist in real databases and count for the reported range)
        keys += [f"aa{t}_f0" for t in at if 10 <= t <= 99]
    if spec.get("d1_only_prefixed") and spec["toggle"]:
        # swing entries stored only in their power-toggling form for one mode (sparse real databases look like this)
        code = MODE_CODE[spec["modes"][seed % len(spec["modes"])]]
        keys = [k for k in keys if not (k.startswith(code) and k.endswith("_d1"))]
    keys.sort(key=lambda k: _h(seed, k, "o"))
    if spec.get("lonely_min"):
        # database order in which the lowest temperature occurs exactly once and is the first temperature listed
        for m in spec["modes"]:
            if m in ("cool", "heat"):
                base = f"{MODE_CODE[m]}{spec['tmin']}"
                keys = [k for k in keys if not (k[2:4] == str(spec["tmin"]) and k[0:2] in ("ar", "ah"))
                        and not (k.startswith("on_") and k[5:7] == str(spec["tmin"]))]
                keys.insert(0, base)
                break
    waves = []
    lens = spec.get("lens", "short")
    for k in keys:
        if lens == "short":
            n = 20 + _h(seed, k, "l") % 101
        elif lens == "mixed":
            r = _h(seed, k, "l")
            n = LEN_CHOICES[r % len(LEN_CHOICES)] if r % 3 == 0 else 14 + (r >> 8) % 120
        else:
            n = int(lens)
        para, hexcode = _text(k, seed, n)
        waves.append({"Key": k, "Para": para, "HexCode": hexcode})
    return {"IRSetID": spec["id"], "OnOffType": 1 if spec["toggle"] else 0, "IRWaveList": waves}


# -- reference model ---------------------------------------------------------------------

_PREP = {}


def _prepared(ir_set):
    """(waves, capabilities) memoised per IR-set object (the object is kept alive so its id stays unique)."""
    ent = _PREP.get(id(ir_set))
    if ent is None or ent[0] is not ir_set:
        if len(_PREP) > 32:
            _PREP.clear()
        waves = {w["Key"]: w for w in ir_set["IRWaveList"]}
        ent = _PREP[id(ir_set)] = (ir_set, waves, _capabilities(ir_set, waves))
    return ent[1], ent[2]


def capabilities(ir_set):
    return _prepared(ir_set)[1]


def _capabilities(ir_set, waves):
    supported = [m for m in MODES if any(k[0:2] == MODE_CODE[m] for k in waves)]
    temps = [int(k[2:4]) for k in waves if k[2:4].isdigit()]
    return {
        "supported": supported,
        "tmin": min(temps) if temps else None,
        "tmax": max(temps) if temps else None,
        "toggle": ir_set["OnOffType"] == 1,
        "separate_swing": ir_set["IRSetID"] in SPECIAL_SWING_IDS,
        "remote_id": ir_set["IRSetID"],
    }


def lookup(ir_set, on, mode, target, fan, swing, prev):
    """Reference of build_command.

    on/swing: bool, mode: name, fan: 0..3, prev: None/True/False.
    Returns ("error", supported) | ("unspecified", why) | ("ok", key, text, clamped).
    """
    waves, cap = _prepared(ir_set)
    toggle = cap["toggle"]
    if mode not in cap["supported"]:
        # "an unsupported mode is refused" is unconditional in the statement, also when a non-toggle remote is
        # asked to turn off (the 'plain off' clause only says which code a *valid* request uses)
        return ("error", cap["supported"])
    clamped = target
    if mode in ("cool", "heat"):
        if cap["tmin"] is None:
            return ("unspecified", "no temperature keys")
        clamped = max(cap["tmin"], min(cap["tmax"], target))
    if not toggle and not on:
        if "off" not in waves:
            return ("unspecified", "no off key stored")
        key = "off"
    else:
        prefix = "on_" if (toggle and prev is not None and prev != on) else ""
        base = prefix + MODE_CODE[mode] + (str(clamped) if mode in ("cool", "heat") else "")
        cands = ([f"{base}_f{fan}_d1"] if swing else []) + [f"{base}_f{fan}", base]
        key = next((c for c in cands if c in waves), None)
        if key is None:
            return ("unspecified", "none of the listed candidates is stored")
    w = waves[key]
    return ("ok", key, w["Para"] + "|" + w["HexCode"], clamped)


def swing_lookup(ir_set, swing):
    waves = {w["Key"]: w for w in ir_set["IRWaveList"]}
    key = "FUN_d1" if swing else "FUN_d0"
    if key not in waves:
        return ("error", key)
    return ("ok", key, waves[key]["Para"] + "|" + waves[key]["HexCode"])


def payload(text):
    """(length field hex, command hex) the statement prescribes for an IR text."""
    raw = b"\x00\x00\x00\x00" + text.encode("ascii")
    return len(raw).to_bytes(2, "little").hex(), raw.hex()
