"""Reference layout of the client -> device frames, written as byte tables.

Nothing here uses the repository's format strings; see DESIGN.md appendix A.1.
"""
from . import crc

MAGIC = b"\xfe\xf0"
TERM = b"\xf0\xfe"

PROTO1 = b"\x02\x32"
PROTO2 = b"\x03\x05"

# kind -> (proto, op word, control word)
HEADERS = {
    "login1": (PROTO1, b"\xa1\x00", b"\x34\x00"),
    "login2": (PROTO2, b"\xa6\x00", b"\xff\x03"),
    "get_state1": (PROTO1, b"\x01\x03", b"\x34\x00"),
    "get_state2": (PROTO2, b"\x01\x03", b"\x39\x00"),
    "control": (PROTO1, b"\x01\x02", b"\x34\x00"),
    "auto_shutdown": (PROTO1, b"\x01\x02", b"\x34\x00"),
    "set_name": (PROTO1, b"\x02\x02", b"\x34\x00"),
    "get_schedules": (PROTO1, b"\x01\x02", b"\x34\x00"),
    "delete_schedule": (PROTO1, b"\x01\x02", b"\x34\x00"),
    "create_schedule": (PROTO1, b"\x01\x02", b"\x34\x00"),
    "breeze_command": (PROTO2, b"\x01\x02", b"\x00\x00"),
    "breeze_status": (PROTO2, b"\x01\x0e", b"\x00\x00"),
    "runner_stop": (PROTO2, b"\x01\x02", b"\x23\x23"),
    "runner_position": (PROTO2, b"\x01\x02", b"\x29\x04"),
}

PAD36 = bytes(36)


def le16(n):
    return int(n).to_bytes(2, "little")


def le32(n):
    return int(n).to_bytes(4, "little")


def body_of(kind, a):
    """Bytes from offset 40 up to (not including) the signature."""
    dev = bytes.fromhex(a["device_id"]) if "device_id" in a else b""
    if kind == "login1":
        return bytes([a["key"]]) + bytes(37)
    if kind == "login2":
        return dev + b"\x00"
    if kind in ("get_state1", "get_state2"):
        return dev + b"\x00"
    pre = dev + PAD36
    if kind == "control":
        return pre + b"\x00\x01\x06\x00" + bytes([1 if a["on"] else 0]) + b"\x00" + le32(a["timer_seconds"])
    if kind == "auto_shutdown":
        return pre + b"\x00\x04\x04\x00" + le32(a["seconds"])
    if kind == "set_name":
        name = a["name"].encode("utf-8")
        assert len(name) <= 32
        return pre + b"\x00" + name + bytes(32 - len(name))
    if kind == "get_schedules":
        return pre + b"\x00\x06\x00\x00"
    if kind == "delete_schedule":
        return pre + b"\x00\x08\x01\x00" + bytes([a["slot"]])
    if kind == "create_schedule":
        return (pre + b"\x00\x03\x0c\x00" + b"\xff\x01" + bytes([a["mask"]]) + b"\x01"
                + le32(a["start"]) + le32(a["end"]))
    if kind == "breeze_command":
        payload = b"\x00\x00\x00\x00" + a["text"].encode("ascii")
        return pre + b"\x37\x01" + le16(len(payload)) + payload
    if kind == "breeze_status":
        return (pre + b"\x37\x01\x00\x03\x0b\x04\x00" + bytes([a["state"], a["mode"], a["target"]])
                + bytes([(a["fan"] << 4) | a["swing"]]))
    if kind == "runner_stop":
        return pre + b"\x37\x02\x02\x00\x00\x00"
    if kind == "runner_position":
        return pre + b"\x37\x01\x01\x00" + bytes([a["position"]])
    raise KeyError(kind)


def build(kind, a):
    """Full signed frame.  a: dict with session (hex, 4 bytes), ts (int) + kind fields."""
    proto, op, ctrl = HEADERS[kind]
    body = body_of(kind, a)
    total = 40 + len(body) + 4
    head = bytearray(40)
    head[0:2] = MAGIC
    head[2:4] = le16(total)
    head[4:6] = proto
    head[6:8] = op
    head[8:12] = bytes.fromhex(a.get("session", "00000000"))
    head[12:14] = ctrl
    head[14:16] = b"\x01\x00"
    head[24:28] = le32(a["ts"])
    head[38:40] = TERM
    return crc.sign(bytes(head) + body)


def structural_errors(frame: bytes):
    """C01 oracle: list of clauses a written byte string violates (layout tables not used)."""
    errs = []
    if len(frame) < 44:
        errs.append(f"short({len(frame)})")
        return errs
    if frame[0:2] != MAGIC:
        errs.append("magic")
    if int.from_bytes(frame[2:4], "little") != len(frame):
        errs.append("length-field")
    if frame[38:40] != TERM:
        errs.append("terminator")
    if frame[-4:] != crc.signature(frame[:-4]):
        errs.append("signature")
    return errs


def decode(frame: bytes):
    """Header view used by C03 (only fields the statement names)."""
    return {
        "len": len(frame),
        "length_field": int.from_bytes(frame[2:4], "little"),
        "proto": frame[4:6].hex(),
        "op": frame[6:8].hex(),
        "session": frame[8:12].hex(),
        "ctrl": frame[12:14].hex(),
        "ts": int.from_bytes(frame[24:28], "little"),
        "body": frame[40:-4],
    }


def classify(frame: bytes):
    """Best-effort kind of a frame from proto / op / control / body marker (for C03)."""
    d = decode(frame)
    p, op, ctrl, body = d["proto"], d["op"], d["ctrl"], d["body"]
    if op == "a100" and p == "0232":
        return "login1"
    if op == "a600" and p == "0305":
        return "login2"
    if op == "0103":
        return "get_state1" if p == "0232" else "get_state2"
    if p == "0232":
        if op == "0202":
            return "set_name"
        marker = body[39:43].hex() if len(body) >= 43 else ""
        return {
            "00010600": "control", "00040400": "auto_shutdown", "00060000": "get_schedules",
            "00080100": "delete_schedule", "00030c00": "create_schedule",
        }.get(marker, "unknown1")
    if p == "0305":
        if op == "010e":
            return "breeze_status"
        if ctrl == "2323":
            return "runner_stop"
        if ctrl == "2904":
            return "runner_position"
        if ctrl == "0000":
            return "breeze_command"
    return "unknown"


# -- pins ------------------------------------------------------------------------------
# literals from tests/test_api_packet_crc_signing.py: id a123bc, key 0x18, session 01000000,
# timestamp ef8db35c (LE) -> 0x5cb38def
_PIN = {"device_id": "a123bc", "session": "01000000", "ts": 0x5CB38DEF}
PINS = [
    ("login1", {"key": 0x18, "ts": 0x5CB38DEF}, "6ddd0cc0"),
    ("get_state1", dict(_PIN), "42a9a1b2"),
    ("control", dict(_PIN, on=True, timer_seconds=0), "cc06bb10"),
    ("control", dict(_PIN, on=False, timer_seconds=0), "6c432cf4"),
    ("control", dict(_PIN, on=True, timer_seconds=5400), "3b30141e"),
    ("auto_shutdown", dict(_PIN, seconds=5400), "3bb1ca55"),
    ("set_name", dict(_PIN, name="my device cool name"), "1039bc0e"),
    ("get_schedules", dict(_PIN), "0efde536"),
]


def selftest():
    for kind, a, sig in PINS:
        f = build(kind, a)
        assert f[-4:].hex() == sig, f"reference {kind} frame does not reproduce literal {sig}: {f[-4:].hex()}"
        assert not structural_errors(f)
